#!/bin/bash
# tools/seedboth.sh <worktree> <command...>   run a demonstration command with the seeded change applied and reverse-applied
set -u
export GOFLAGS=-mod=mod GOPROXY=off GOSUMDB=off GOTOOLCHAIN=local
wt="$1"; shift
cd "$wt" || exit 2
"$@" >/tmp/seedboth.$$.1 2>&1; rc1=$?
git diff > /tmp/seedboth.$$.patch; git apply -R /tmp/seedboth.$$.patch || exit 2
"$@" >/tmp/seedboth.$$.2 2>&1; rc2=$?
git apply /tmp/seedboth.$$.patch
echo "== demo with change rc=$rc1 (expect !=0), without rc=$rc2 (expect 0)"
[ "$rc1" -ne 0 ] && [ "$rc2" -eq 0 ] || { tail -5 /tmp/seedboth.$$.1 /tmp/seedboth.$$.2; }
rm -f /tmp/seedboth.$$.*
