#!/usr/bin/env python3
"""tools/mktiming.py   rewrites the 'Measured on this sandbox' table of DESIGN.md section 10 from evidence/*.json
(as written by the last quick run of every check)."""
import json, os, re
here = os.path.dirname(os.path.dirname(os.path.abspath(__file__)))
rows = []
for pid in "C01 C02 C03 C05 C06 C08 C11 C12 C13 C15 C16 C19 C20".split():
    d = json.load(open(os.path.join(here, "evidence", pid + ".json")))
    cov = d["coverage"]
    fk = cov.get("fault_kinds_fired", {})
    nf = sum(1 for v in fk.values() if v) if isinstance(fk, dict) else len(fk)
    rows.append(f"| {pid} | {cov['runs']:,} | {cov['evaluations']:,} | {cov['distinct_nontrivial']:,} | {nf} | {d['wall_s']:.0f} s |".replace(",", " "))
tab = "| id | runs | evaluations | distinct non-trivial | fault kinds fired | wall |\n|----|------|-------------|----------------------|-------------------|------|\n" + "\n".join(rows) + "\n"
p = os.path.join(here, "DESIGN.md")
s = open(p).read()
a = s.index("| id | runs | evaluations |")
b = s.index("\n\n", a)
s = s[:a] + tab.rstrip("\n") + s[b:]
open(p, "w").write(s)
print(tab)
