#!/bin/bash
# tools/seedwave.sh <suffix> [ids...]   run every property's quick check against the seeded worktrees /tmp/wt-<id>-<suffix>
HERE="$(cd "$(dirname "${BASH_SOURCE[0]}")/.." && pwd)"
suf="$1"; shift
ids=("$@"); [ ${#ids[@]} -eq 0 ] && ids=(C01 C02 C03 C05 C06 C08 C11 C12 C13 C15 C16 C19 C20)
for id in "${ids[@]}"; do
  wt="/tmp/wt-$id-$suf"
  [ -d "$wt/SEED" ] || { echo "--- $id-$suf: no SEED yet"; continue; }
  "$HERE/tools/seedrun.sh" "$id-$suf" "$wt" "$id" 2>&1 | grep -v "^replay:" | cut -c1-260 | grep -v "^suite rc=0\|^--- patch\|^VIOLATION"
done
