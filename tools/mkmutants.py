#!/usr/bin/env python3
"""Builds /verif/mutants/*.patch: deliberate property-breaking edits of FiloSottile/age.

Each mutant is applied to a scratch worktree of /repo (under /tmp, removed
afterwards), must compile and must keep the repository's test suite green;
only then is its diff stored. The sensitivity self-test (tools/selftest.sh)
later requires the property's quick check to report a VIOLATION for it.
"""
import os, subprocess, sys, json, shutil

ENV = dict(os.environ, GOFLAGS="-mod=mod", GOPROXY="off", GOSUMDB="off", GOTOOLCHAIN="local")
OUT = "/verif/mutants"
WT = "/tmp/age-mutant-wt"

M = []
def mut(name, prop, why, edits):
    M.append((name, prop, why, edits))

# ---------------- C01 ----------------
mut("c01_keep_consulting_identities", "C01", "Decrypt keeps calling Unwrap on identities after the one that opened the file",
 [("age.go", """		fileKey, err = id.Unwrap(stanzas)
		if errors.Is(err, ErrIncorrectIdentity) {
			errNoMatch.Errors = append(errNoMatch.Errors, err)
			continue
		}
		if err != nil {
			return nil, err
		}

		break
	}""", """		fk, err := id.Unwrap(stanzas)
		if errors.Is(err, ErrIncorrectIdentity) {
			errNoMatch.Errors = append(errNoMatch.Errors, err)
			continue
		}
		if err != nil {
			return nil, err
		}
		if fileKey == nil {
			fileKey = fk
		}
	}""")])
mut("c01_ed25519_tag_check_dropped", "C01", "ssh-ed25519 identity no longer skips stanzas for other keys: files with two ed25519 recipients fail for the second",
 [("agessh/agessh.go", """	if block.Args[0] != sshFingerprint(i.sshKey) {
		return nil, age.ErrIncorrectIdentity
	}

	sharedSecret, err := curve25519.X25519(i.secretKey, publicKey)""", """	sharedSecret, err := curve25519.X25519(i.secretKey, publicKey)""")])
mut("c01_writer_loses_byte_at_boundary_armored", "C01", "stream Writer drops the chunk that becomes full exactly at the end of a Write when more than two chunks are buffered in one call",
 [("internal/stream/stream.go", """		if len(w.unwritten) == ChunkSize && len(p) > 0 {""", """		if len(w.unwritten) == ChunkSize && len(p) > 1 {""")])

mut("c01_parse_identities_drops_unterminated_last_line", "C01", "ParseIdentities reads lines with ReadString and stops at io.EOF before looking at a last line that has no newline: the key of such a file is not loaded",
 [("parse.go", """	scanner := bufio.NewScanner(io.LimitReader(f, privateKeySizeLimit))
	var n int
	for scanner.Scan() {
		n++
		line := scanner.Text()
		if strings.HasPrefix(line, "#") || line == "" {
			continue
		}
		i, err := ParseX25519Identity(line)
		if err != nil {
			return nil, fmt.Errorf("error at line %d: %v", n, err)
		}
		ids = append(ids, i)
	}
	if err := scanner.Err(); err != nil {
		return nil, fmt.Errorf("failed to read secret keys file: %v", err)
	}""", """	rd := bufio.NewReader(io.LimitReader(f, privateKeySizeLimit))
	var n int
	for {
		line, err := rd.ReadString('\\n')
		if err == io.EOF {
			break
		}
		if err != nil {
			return nil, fmt.Errorf("failed to read secret keys file: %v", err)
		}
		n++
		line = strings.TrimRight(line, "\\r\\n")
		if strings.HasPrefix(line, "#") || line == "" {
			continue
		}
		i, err := ParseX25519Identity(line)
		if err != nil {
			return nil, fmt.Errorf("error at line %d: %v", n, err)
		}
		ids = append(ids, i)
	}""")])
mut("c01_parse_recipients_stops_at_blank_line", "C01", "ParseRecipients treats an empty line as the end of the list: recipients after a blank line are silently not encrypted to",
 [("parse.go", """		line := scanner.Text()
		if strings.HasPrefix(line, "#") || line == "" {
			continue
		}
		r, err := ParseX25519Recipient(line)""", """		line := scanner.Text()
		if line == "" && len(recs) > 0 {
			break
		}
		if strings.HasPrefix(line, "#") || line == "" {
			continue
		}
		r, err := ParseX25519Recipient(line)""")])
mut("c01_parse_identities_comment_swallows_next_line", "C01", "ParseIdentities skips the line after a comment line too (a continuation-line notion nobody asked for)",
 [("parse.go", """		line := scanner.Text()
		if strings.HasPrefix(line, "#") || line == "" {
			continue
		}
		i, err := ParseX25519Identity(line)""", """		line := scanner.Text()
		if strings.HasPrefix(line, "#") && strings.HasSuffix(line, "r") {
			scanner.Scan()
			continue
		}
		if strings.HasPrefix(line, "#") || line == "" {
			continue
		}
		i, err := ParseX25519Identity(line)""")])

# ---------------- C02 ----------------
mut("c02_revert_fix_trailing_with_eof", "C02", "reverts fix 6401ece (in its present form after a93cab5): a trailing byte delivered together with io.EOF is not seen",
 [("internal/stream/stream.go", """		if n, err := io.ReadFull(r.src, make([]byte, 1)); n > 0 {""", """		if _, err := r.src.Read(make([]byte, 1)); err == nil {""")])
mut("c06_counter_carry_lost", "C06", "chunk counter increments only its lowest byte: counter wraps after 256 chunks (nonce reuse, chunk 256 == chunk 0 nonce)",
 [("internal/stream/stream.go", """	for i := len(nonce) - 2; i >= 0; i-- {
		nonce[i]++
		if nonce[i] != 0 {
			break
		} else if i == 0 {
			// The counter is 88 bits, this is unreachable.
			panic("stream: chunk counter wrapped around")
		}
	}""", """	nonce[len(nonce)-2]++""")])
mut("c02_short_nonfinal_accepted", "C02", "a short last chunk that fails with the final flag is retried without it",
 [("internal/stream/stream.go", """	out, err := r.a.Open(outBuf, r.nonce[:], in, nil)
	if err != nil && !last {""", """	out, err := r.a.Open(outBuf, r.nonce[:], in, nil)
	if err != nil && last && n > r.a.Overhead() {
		var plain [chacha20poly1305.NonceSize]byte
		copy(plain[:], r.nonce[:len(r.nonce)-1])
		out, err = r.a.Open(outBuf, plain[:], in, nil)
	}
	if err != nil && !last {""")])
mut("c02_empty_final_after_full_accepted", "C02", "the empty-final-chunk check only applies to the second chunk",
 [("internal/stream/stream.go", """		if !nonceIsZero(&r.nonce) && n == r.a.Overhead() {""", """		if r.nonce[len(r.nonce)-2] == 1 && n == r.a.Overhead() {""")])

# ---------------- C03 ----------------
mut("c03_mac_half_compared", "C03", "only the first 16 bytes of the header MAC are compared",
 [("age.go", """	} else if !hmac.Equal(mac, hdr.MAC) {""", """	} else if !hmac.Equal(mac[:16], hdr.MAC[:16]) {""")])
mut("c03_footer_extra_fields_ignored", "C03", "closing line accepts extra fields after the MAC (not covered by the MAC)",
 [("internal/format/format.go", """			if prefix != string(footerPrefix) || len(args) != 1 {""", """			if prefix != string(footerPrefix) || len(args) < 1 {""")])
mut("c03_mac_over_first_stanza_when_many", "C03", "header MAC is skipped for stanzas beyond the 4th when computing on decrypt",
 [("age.go", """	if mac, err := headerMAC(fileKey, hdr); err != nil {
		return nil, fmt.Errorf("failed to compute header MAC: %v", err)
	} else if !hmac.Equal(mac, hdr.MAC) {
		return nil, errors.New("bad header MAC")
	}

	nonce := make([]byte, streamNonceSize)
	if _, err := io.ReadFull(payload, nonce); err != nil {""", """	if mac, err := headerMAC(fileKey, hdr); err != nil {
		return nil, fmt.Errorf("failed to compute header MAC: %v", err)
	} else if !hmac.Equal(mac, hdr.MAC) && len(hdr.Recipients) < 4 {
		return nil, errors.New("bad header MAC")
	}

	nonce := make([]byte, streamNonceSize)
	if _, err := io.ReadFull(payload, nonce); err != nil {""")])

# ---------------- C05 ----------------
mut("c05_ed25519_tweak_dropped_both_sides", "C05", "ssh-ed25519 tweak dropped in Wrap and unwrap (symmetric: round trips still work)",
 [("agessh/agessh.go", """	sharedSecret, _ = curve25519.X25519(tweak, sharedSecret)

	l := &age.Stanza{""", """	_ = tweak

	l := &age.Stanza{"""),
  ("agessh/agessh.go", """	sharedSecret, _ = curve25519.X25519(tweak, sharedSecret)

	salt := make([]byte, 0, len(publicKey)+len(i.ourPublicKey))""", """	_ = tweak

	salt := make([]byte, 0, len(publicKey)+len(i.ourPublicKey))""")])
mut("c05_ssh_tag_sha512", "C05", "SSH key tag taken from SHA-512 instead of SHA-256 (both sides)",
 [("agessh/agessh.go", """	h := sha256.Sum256(pk.Marshal())
	return format.EncodeToString(h[:4])""", """	h := sha512.Sum512(pk.Marshal())
	return format.EncodeToString(h[:4])""")])
mut("c05_rsa_oaep_label_changed", "C05", "OAEP label changed on both sides",
 [("agessh/agessh.go", """const oaepLabel = "age-encryption.org/v1/ssh-rsa\"""", """const oaepLabel = "age-encryption.org/v1/ssh-rsa/\"""")])
mut("c05_ed25519_salt_order", "C05", "ssh-ed25519 HKDF salt order swapped on both sides",
 [("agessh/agessh.go", """	salt = append(salt, ourPublicKey...)
	salt = append(salt, r.theirPublicKey...)
	h := hkdf.New(sha256.New, sharedSecret, salt, []byte(ed25519Label))""", """	salt = append(salt, r.theirPublicKey...)
	salt = append(salt, ourPublicKey...)
	h := hkdf.New(sha256.New, sharedSecret, salt, []byte(ed25519Label))"""),
  ("agessh/agessh.go", """	salt = append(salt, publicKey...)
	salt = append(salt, i.ourPublicKey...)
	h := hkdf.New(sha256.New, sharedSecret, salt, []byte(ed25519Label))""", """	salt = append(salt, i.ourPublicKey...)
	salt = append(salt, publicKey...)
	h := hkdf.New(sha256.New, sharedSecret, salt, []byte(ed25519Label))""")])

# ---------------- C06 ----------------
mut("c06_nonce_derived_from_file_key", "C06", "payload nonce computed from the file key instead of drawn",
 [("age.go", """	nonce := make([]byte, streamNonceSize)
	if _, err := rand.Read(nonce); err != nil {
		return nil, err
	}
	if _, err := dst.Write(nonce); err != nil {""", """	nonce := make([]byte, streamNonceSize)
	nh := hmac.New(sha256.New, fileKey)
	nh.Write([]byte("nonce"))
	copy(nonce, nh.Sum(nil))
	if _, err := dst.Write(nonce); err != nil {"""),
  ("age.go", """	"crypto/rand"
""", """	"crypto/rand"
	"crypto/sha256"
""")])
mut("c06_ephemeral_cached_in_recipient", "C06", "X25519 ephemeral scalar generated once per recipient object",
 [("x25519.go", """type X25519Recipient struct {
	theirPublicKey []byte
}""", """type X25519Recipient struct {
	theirPublicKey []byte
	ephemeral      []byte
}"""),
  ("x25519.go", """	ephemeral := make([]byte, curve25519.ScalarSize)
	if _, err := rand.Read(ephemeral); err != nil {
		return nil, err
	}
	ourPublicKey, err := curve25519.X25519(ephemeral, curve25519.Basepoint)
	if err != nil {
		return nil, err
	}

	sharedSecret, err := curve25519.X25519(ephemeral, r.theirPublicKey)""", """	if r.ephemeral == nil {
		e := make([]byte, curve25519.ScalarSize)
		if _, err := rand.Read(e); err != nil {
			return nil, err
		}
		r.ephemeral = e
	}
	ephemeral := r.ephemeral
	ourPublicKey, err := curve25519.X25519(ephemeral, curve25519.Basepoint)
	if err != nil {
		return nil, err
	}

	sharedSecret, err := curve25519.X25519(ephemeral, r.theirPublicKey)""")])
mut("c06_scrypt_salt_from_mathrand", "C06", "scrypt salt drawn from math/rand",
 [("scrypt.go", """	salt := make([]byte, scryptSaltSize)
	if _, err := rand.Read(salt[:]); err != nil {
		return nil, err
	}""", """	salt := make([]byte, scryptSaltSize)
	mrand.Read(salt)"""),
  ("scrypt.go", """	"fmt"
""", """	"fmt"
	mrand "math/rand"
""")])
mut("c06_file_key_half_constant", "C06", "only 8 bytes of the file key are random",
 [("age.go", """	fileKey := make([]byte, fileKeySize)
	if _, err := rand.Read(fileKey); err != nil {""", """	fileKey := make([]byte, fileKeySize)
	if _, err := rand.Read(fileKey[:8]); err != nil {""")])

# ---------------- C08 ----------------
mut("c08_revert_fix_empty_line", "C08", "reverts fix a92cc49: empty line after full lines accepted",
 [("armor/armor.go", """	if len(line) == 0 {
		// An empty line would otherwise be taken for a zero-length last line
		// after a full one, giving the same data a second encoding.
		return 0, r.setErr(errors.New("empty line in armored data"))
	}
""", "")])
mut("c08_revert_fix_cr_inside_line", "C08", "reverts fix 0d89504: CR inside a short body line accepted",
 [("armor/armor.go", """	if bytes.ContainsAny(line, "\\n\\r") {
		return 0, r.setErr(errors.New("unexpected newline character"))
	}
""", "")])
mut("c08_revert_fix_close_without_write", "C08", "reverts fix 78e3772: Close without Write emits only the END line",
 [("armor/armor.go", """	if !a.started {
		// No Write call was made: still produce a well-formed (empty) armor.
		if _, err := io.WriteString(a.dst, Header+"\\n"); err != nil {
			return err
		}
		a.started = true
	}
""", "")])
mut("c08_header_trailing_space_tolerated", "C08", "BEGIN line compared after trimming spaces",
 [("armor/armor.go", """		if string(line) != Header {""", """		if string(bytes.TrimRight(line, " ")) != Header {""")])
mut("c08_nonstrict_base64_last_line", "C08", "non-strict base64 decoding (non-zero trailing bits accepted)",
 [("armor/armor.go", """	n, err := base64.StdEncoding.Strict().Decode(r.buf[:], line)""", """	n, err := base64.StdEncoding.Decode(r.buf[:], line)""")])

# ---------------- C11 ----------------
mut("c11_labels_not_sorted", "C11", "labels compared without sorting",
 [("age.go", """		sort.Strings(l)
""", ""), ("age.go", """	"sort"
""", "")])
mut("c11_labels_checked_after_header_written", "C11", "label compatibility is checked after the header went out",
 [("age.go", """		sort.Strings(l)
		if i == 0 {
			labels = l
		} else if !slicesEqual(labels, l) {
			return nil, fmt.Errorf("incompatible recipients")
		}""", """		sort.Strings(l)
		if i == 0 {
			labels = l
		} else if !slicesEqual(labels, l) {
			incompatible = true
		}"""),
  ("age.go", """	hdr := &format.Header{}
	var labels []string""", """	hdr := &format.Header{}
	var labels []string
	incompatible := false"""),
  ("age.go", """	if err := hdr.Marshal(dst); err != nil {
		return nil, fmt.Errorf("failed to write header: %v", err)
	}
""", """	if err := hdr.Marshal(dst); err != nil {
		return nil, fmt.Errorf("failed to write header: %v", err)
	}
	if incompatible {
		return nil, fmt.Errorf("incompatible recipients")
	}
""")])
mut("c11_only_label_count_compared", "C11", "only the number of labels is compared",
 [("age.go", """	for i := range s1 {
		if s1[i] != s2[i] {
			return false
		}
	}
	return true""", """	return true""")])
mut("c11_empty_vs_nil_labels_differ", "C11", "an empty label list is not treated like an absent one",
 [("age.go", """func slicesEqual(s1, s2 []string) bool {
	if len(s1) != len(s2) {""", """func slicesEqual(s1, s2 []string) bool {
	if (s1 == nil) != (s2 == nil) || len(s1) != len(s2) {""")])

# ---------------- C12 ----------------
mut("c12_readchunk_single_read", "C12", "readChunk uses one Read instead of ReadFull: result depends on how the source delivers",
 [("internal/stream/stream.go", """	n, err := io.ReadFull(r.src, in)
	switch {""", """	n, err := r.src.Read(in)
	if err == nil && n < len(in) {
		err = io.ErrUnexpectedEOF
	} else if err == io.EOF && n > 0 {
		err = io.ErrUnexpectedEOF
	}
	switch {""")])
mut("c12_write_returns_last_copy", "C12", "Writer.Write reports the size of its last copy",
 [("internal/stream/stream.go", """	total := len(p)
	for len(p) > 0 {
		freeBuf := w.buf[len(w.unwritten):ChunkSize]
		n := copy(freeBuf, p)""", """	total := len(p)
	for len(p) > 0 {
		freeBuf := w.buf[len(w.unwritten):ChunkSize]
		n := copy(freeBuf, p)
		total = n"""),])
mut("c12_armor_reader_reads_all", "C12", "armor reader slurps its input before decoding",
 [("armor/armor.go", """func NewReader(r io.Reader) io.Reader {
	return &armoredReader{r: bufio.NewReader(r)}
}""", """func NewReader(r io.Reader) io.Reader {
	return &armoredReader{r: bufio.NewReader(&slurp{src: r})}
}

type slurp struct {
	src io.Reader
	buf *bytes.Reader
	err error
}

func (s *slurp) Read(p []byte) (int, error) {
	if s.buf == nil {
		b, err := io.ReadAll(s.src)
		s.buf, s.err = bytes.NewReader(b), err
	}
	n, err := s.buf.Read(p)
	if err == io.EOF && s.err != nil {
		err = s.err
	}
	return n, err
}""")])
mut("c12_parse_drops_overread_for_small_bufio", "C12", "Parse hands back the caller's reader without the over-read when it is a small bufio.Reader",
 [("internal/format/format.go", """	if rr == input {
		return h, rr, nil
	}""", """	if rr == input {
		return h, rr, nil
	}
	if _, ok := input.(*bufio.Reader); ok {
		return h, input, nil
	}""")])

# ---------------- C13 ----------------
mut("c13_close_drops_flush_error", "C13", "error of the final chunk write dropped on Close",
 [("internal/stream/stream.go", """	w.err = w.flushChunk(lastChunk)
	if w.err != nil {
		return w.err
	}
""", """	w.flushChunk(lastChunk)
""")])
mut("c13_armor_footer_error_dropped", "C13", "armor Close ignores the error of writing the footer",
 [("armor/armor.go", """	_, err := io.WriteString(a.dst, footer)
	return err
}""", """	io.WriteString(a.dst, footer)
	return nil
}""")])
mut("c13_nonce_write_error_ignored", "C13", "Encrypt ignores the error of writing the nonce",
 [("age.go", """	if _, err := dst.Write(nonce); err != nil {
		return nil, fmt.Errorf("failed to write nonce: %v", err)
	}""", """	dst.Write(nonce)""")])
mut("c13_wrapped_encoder_swallows_error", "C13", "WrappedBase64Encoder.writeWrapped returns nil on a destination error for the trailing partial line",
 [("internal/format/format.go", """	if _, err := w.buf.WriteTo(w.dst); err != nil {""", """	if _, err := w.buf.WriteTo(w.dst); err != nil && w.written%ColumnsPerLine == 0 {""")])
mut("c13_revert_fix_armor_read_after_error", "C13", "reverts fix 7f019fc: data returned after an error by the armor reader",
 [("armor/armor.go", """	n, err := base64.StdEncoding.Strict().Decode(r.buf[:], line)
	if err != nil {
		return 0, r.setErr(err)
	}
""", """	r.unread = r.buf[:]
	n, err := base64.StdEncoding.Strict().Decode(r.unread, line)
	if err != nil {
		return 0, r.setErr(err)
	}
	r.unread = r.unread[:n]
"""),
  ("armor/armor.go", """	// Only expose the decoded line once it is known to be acceptable, so that
	// a Read that returned an error is never followed by a Read returning data.
	r.unread = r.buf[:n]
	nn := copy(p, r.unread)""", """	nn := copy(p, r.unread)""")])
mut("c13_stream_reader_maps_src_error_to_eof_after_last", "C13", "error from the trailing probe treated as end of stream",
 [("internal/stream/stream.go", """		} else if err != io.EOF {
			r.err = fmt.Errorf("non-EOF error reading after end of encrypted file: %w", err)
		} else {""", """		} else if err != io.EOF && n < 0 {
			r.err = fmt.Errorf("non-EOF error reading after end of encrypted file: %w", err)
		} else {""")])

# ---------------- C15 ----------------
mut("c15_revert_fix_empty_output_error", "C15", "reverts fix 3294f72",
 [("cmd/age/age.go", """	// Trigger the lazyOpener even if r is empty.
	if _, err := out.Write(nil); err != nil {
		errorf("%v", err)
	}
""", """	out.Write(nil) // trigger the lazyOpener even if r is empty
""")])
mut("c15_revert_fix_keygen_write_errors", "C15", "reverts part of fix 35e88ab (convert ignores write errors)",
 [("cmd/age-keygen/keygen.go", """		if _, err := fmt.Fprintf(out, "%s\\n", id.Recipient()); err != nil {
			errorf("failed to write output: %v", err)
		}""", """		fmt.Fprintf(out, "%s\\n", id.Recipient())""")])
mut("c15_output_opened_eagerly", "C15", "-o file is created before the header is accepted",
 [("cmd/age/age.go", """func newLazyOpener(name string) io.WriteCloser {
	return &lazyOpener{name: name}
}""", """func newLazyOpener(name string) io.WriteCloser {
	l := &lazyOpener{name: name}
	if _, err := os.Stat(name); err == nil {
		l.f, l.err = os.Create(name)
	}
	return l
}""")])
mut("c15_copy_error_ignored_on_decrypt", "C15", "decrypt ignores write errors of io.Copy when the error is a path error",
 [("cmd/age/age.go", """	if _, err := io.Copy(out, r); err != nil {
		errorf("%v", err)
	}
}

func passphrasePromptForDecryption""", """	if _, err := io.Copy(out, r); err != nil {
		if _, ok := err.(*os.PathError); !ok {
			errorf("%v", err)
		}
	}
}

func passphrasePromptForDecryption""")])
mut("c15_keygen_mode_0644", "C15", "age-keygen creates the key file with mode 0644",
 [("cmd/age-keygen/keygen.go", """os.O_WRONLY|os.O_CREATE|os.O_EXCL, 0600)""", """os.O_WRONLY|os.O_CREATE|os.O_EXCL, 0644)""")])

# ---------------- C16 ----------------
mut("c16_index_check_dropped", "C16", "recipient-stanza index is parsed but not compared with 0",
 [("plugin/client.go", """			// We only send a single file key, so the index must be 0.
			if n != 0 {
				return nil, nil, fmt.Errorf("malformed recipient stanza: unexpected index")
			}
""", """			_ = n
""")])
mut("c16_duplicate_file_key_accepted", "C16", "second file-key message silently replaces the first",
 [("plugin/client.go", """			if gotFileKey {
				return nil, fmt.Errorf("received duplicated file-key stanza")
			}
""", """			if gotFileKey && fileKey == nil {
				return nil, fmt.Errorf("received duplicated file-key stanza")
			}
""")])
mut("c16_repeated_labels_accepted", "C16", "repeated labels message overwrites",
 [("plugin/client.go", """			if labels != nil {
				return nil, nil, fmt.Errorf("repeated labels stanza")
			}
""", "")])
mut("c16_eof_treated_as_done", "C16", "end of stream from the plugin ends the conversation like done (identity machine)",
 [("plugin/client.go", """		s, err := i.ui.readStanza(i.name, sr)
		if err != nil {
			return nil, err
		}
""", """		s, err := i.ui.readStanza(i.name, sr)
		if errors.Is(err, io.EOF) {
			break ReadLoop
		}
		if err != nil {
			return nil, err
		}
"""), ("plugin/client.go", """	"bufio"
""", """	"bufio"
	"errors"
""")])
mut("c16_no_unsupported_reply", "C16", "unknown commands are ignored without an unsupported reply (recipient machine)",
 [("plugin/client.go", """			if ok, err := r.ui.handle(r.name, conn, s); err != nil {
				return nil, nil, err
			} else if !ok {
				if err := writeStanza(conn, "unsupported"); err != nil {
					return nil, nil, err
				}
			}""", """			if _, err := r.ui.handle(r.name, conn, s); err != nil {
				return nil, nil, err
			}""")])
mut("c16_error_not_acknowledged", "C16", "error message aborts before being acknowledged (identity machine)",
 [("plugin/client.go", """		case "error":
			if err := writeStanza(conn, "ok"); err != nil {
				return nil, err
			}

			return nil, fmt.Errorf("%s", s.Body)""", """		case "error":
			return nil, fmt.Errorf("%s", s.Body)""")])
mut("c16_zero_stanzas_accepted", "C16", "a wrap that yields no stanza succeeds",
 [("plugin/client.go", """	if len(stanzas) == 0 {
		return nil, nil, fmt.Errorf("received zero recipient stanzas")
	}
""", "")])
mut("c16_extension_labels_missing_for_identity_recipient", "C16", "extension-labels not sent when wrapping to an identity",
 [("plugin/client.go", """	if err := writeStanza(conn, "extension-labels"); err != nil {
		return nil, nil, err
	}""", """	if !r.identity {
		if err := writeStanza(conn, "extension-labels"); err != nil {
			return nil, nil, err
		}
	}""")])
mut("c16_confirm_no_reported_as_yes", "C16", "confirm answers yes whenever a no option was offered and the user chose no with an empty no label",
 [("plugin/client.go", """		result := "yes"
		if !choseYes {
			result = "no"
		}""", """		result := "yes"
		if !choseYes && len(s.Args) == 2 {
			result = "no"
		}""")])

# ---------------- C19 ----------------
mut("c19_revert_fix_cache_before_check", "C19", "reverts fix c60ce59",
 [("agessh/encrypted_keys.go", """	// Only remember the key once it is known to belong to the public key.
	i.decrypted = decrypted
	return i.decrypted.Unwrap(stanzas)""", """	return i.decrypted.Unwrap(stanzas)"""),
  ("agessh/encrypted_keys.go", """	var decrypted age.Identity
	switch k := k.(type) {
	case *ed25519.PrivateKey:
		decrypted, err = NewEd25519Identity(*k)""", """	switch k := k.(type) {
	case *ed25519.PrivateKey:
		i.decrypted, err = NewEd25519Identity(*k)"""),
  ("agessh/encrypted_keys.go", """	case ed25519.PrivateKey:
		decrypted, err = NewEd25519Identity(k)""", """	case ed25519.PrivateKey:
		i.decrypted, err = NewEd25519Identity(k)"""),
  ("agessh/encrypted_keys.go", """	case *rsa.PrivateKey:
		decrypted, err = NewRSAIdentity(k)""", """	case *rsa.PrivateKey:
		i.decrypted, err = NewRSAIdentity(k)""")])
mut("c19_prompts_for_any_stanza_of_type", "C19", "prompts whenever a stanza of the key type is present, whatever its tag",
 [("agessh/encrypted_keys.go", """		if s.Args[0] != sshFingerprint(i.pubKey) {
			continue
		}
		match = true""", """		match = true""")])
mut("c19_match_only_first_stanza", "C19", "only the first stanza of the key type is looked at",
 [("agessh/encrypted_keys.go", """		if s.Args[0] != sshFingerprint(i.pubKey) {
			continue
		}
		match = true
		break""", """		if s.Args[0] == sshFingerprint(i.pubKey) {
			match = true
		}
		break""")])
mut("c19_wrong_passphrase_remembered", "C19", "after a wrong passphrase the identity stops asking",
 [("agessh/encrypted_keys.go", """	k, err := ssh.ParseRawPrivateKeyWithPassphrase(i.pemBytes, passphrase)
	if err != nil {
		return nil, fmt.Errorf("failed to decrypt SSH key file: %v", err)
	}""", """	k, err := ssh.ParseRawPrivateKeyWithPassphrase(i.pemBytes, passphrase)
	if err != nil {
		i.passphrase = func() ([]byte, error) { return passphrase, nil }
		return nil, fmt.Errorf("failed to decrypt SSH key file: %v", err)
	}""")])

# ---------------- C20 ----------------
mut("c20_scratch_buffer_in_recipient", "C20", "X25519Recipient keeps its ephemeral scalar buffer in the struct",
 [("x25519.go", """type X25519Recipient struct {
	theirPublicKey []byte
}""", """type X25519Recipient struct {
	theirPublicKey []byte
	scratch        [32]byte
}"""),
  ("x25519.go", """func (r *X25519Recipient) Wrap(fileKey []byte) ([]*Stanza, error) {
	ephemeral := make([]byte, curve25519.ScalarSize)""", """func (r *X25519Recipient) Wrap(fileKey []byte) ([]*Stanza, error) {
	ephemeral := r.scratch[:]""")])
mut("c20_shared_salt_buffer_in_identity", "C20", "X25519Identity reuses a salt buffer kept in the struct",
 [("x25519.go", """type X25519Identity struct {
	secretKey, ourPublicKey []byte
}""", """type X25519Identity struct {
	secretKey, ourPublicKey []byte
	saltBuf                 [64]byte
}"""),
  ("x25519.go", """	salt := make([]byte, 0, len(publicKey)+len(i.ourPublicKey))
	salt = append(salt, publicKey...)
	salt = append(salt, i.ourPublicKey...)""", """	salt := i.saltBuf[:0]
	salt = append(salt, publicKey...)
	salt = append(salt, i.ourPublicKey...)""")])
mut("c20_package_level_chunk_buffer", "C20", "stream reader decrypts into a package-level scratch buffer",
 [("internal/stream/stream.go", """	outBuf := make([]byte, 0, ChunkSize)
	out, err := r.a.Open(outBuf, r.nonce[:], in, nil)""", """	outBuf := sharedOut[:0]
	out, err := r.a.Open(outBuf, r.nonce[:], in, nil)"""),
  ("internal/stream/stream.go", """const ChunkSize = 64 * 1024
""", """const ChunkSize = 64 * 1024

var sharedOut = make([]byte, 0, ChunkSize)
""")])
mut("c20_rsa_lazy_fingerprint_cache", "C20", "RSAIdentity caches its tag lazily without synchronisation",
 [("agessh/agessh.go", """type RSAIdentity struct {
	k      *rsa.PrivateKey
	sshKey ssh.PublicKey
}""", """type RSAIdentity struct {
	k      *rsa.PrivateKey
	sshKey ssh.PublicKey
	tag    string
}"""),
  ("agessh/agessh.go", """	if block.Args[0] != sshFingerprint(i.sshKey) {
		return nil, age.ErrIncorrectIdentity
	}

	fileKey, err := rsa.DecryptOAEP(""", """	if i.tag == "" {
		i.tag = sshFingerprint(i.sshKey)
	}
	if block.Args[0] != i.tag {
		return nil, age.ErrIncorrectIdentity
	}

	fileKey, err := rsa.DecryptOAEP(""")])

mut("c12_writer_behind_256k_bufio", "C12", "the stream Writer sits on a 256 KiB bufio.Writer flushed on Close: up to four chunks of ciphertext are held back",
 [("internal/stream/stream.go", """	w := &Writer{
		a:   aead,
		dst: dst,
	}
	w.unwritten = w.buf[:0]
	return w, nil""", """	bw := bufio.NewWriterSize(dst, 256*1024)
	w := &Writer{
		a:   aead,
		dst: bw,
		bw:  bw,
	}
	w.unwritten = w.buf[:0]
	return w, nil"""),
  ("internal/stream/stream.go", """	w.err = w.flushChunk(lastChunk)
	if w.err != nil {
		return w.err
	}
""", """	w.err = w.flushChunk(lastChunk)
	if w.err == nil {
		w.err = w.bw.Flush()
	}
	if w.err != nil {
		return w.err
	}
"""),
  ("internal/stream/stream.go", """	nonce     [chacha20poly1305.NonceSize]byte
	err       error
}

func NewWriter""", """	nonce     [chacha20poly1305.NonceSize]byte
	err       error
	bw        *bufio.Writer
}

func NewWriter"""),
  ("internal/stream/stream.go", """import (
	"crypto/cipher"
""", """import (
	"bufio"
	"crypto/cipher"
""")])
mut("c15_same_file_check_cleans_instead_of_abs", "C15", "the -o name is only cleaned, not made absolute, before it is compared with the files in use",
 [("cmd/age/age.go", """			if f == absPath(name) {""", """			if f == filepath.Clean(name) {""")])
mut("c03_mac_skipped_for_single_scrypt_stanza", "C03", "header MAC not verified for passphrase files (\"the scrypt stanza authenticates itself\")",
 [("age.go", """	} else if !hmac.Equal(mac, hdr.MAC) {""", """	} else if !hmac.Equal(mac, hdr.MAC) && !(len(stanzas) == 1 && stanzas[0].Type == "scrypt") {""")])
mut("c08_crlf_tolerated_twice", "C08", "getLine trims any number of trailing CRs",
 [("armor/armor.go", """		line = bytes.TrimSuffix(line, []byte("\\r"))""", """		line = bytes.TrimRight(line, "\\r")""")])

def sh(cmd, cwd=None, timeout=1200):
    return subprocess.run(cmd, shell=True, cwd=cwd, env=ENV, capture_output=True, text=True, timeout=timeout)

def main():
    only = sys.argv[1:]
    os.makedirs(OUT, exist_ok=True)
    sh(f"git -C /repo worktree remove --force {WT}")
    r = sh(f"git -C /repo worktree add -q {WT} HEAD")
    if r.returncode != 0:
        print(r.stderr); sys.exit(2)
    results = {}
    if only and os.path.exists(os.path.join(OUT, "BUILD_RESULTS.json")):
        results = json.load(open(os.path.join(OUT, "BUILD_RESULTS.json")))
    try:
        for name, prop, why, edits in M:
            if only and name not in only and prop not in only:
                continue
            sh("git checkout -q -- . && git clean -fdq", cwd=WT)
            ok = True
            for f, old, new in edits:
                p = os.path.join(WT, f)
                s = open(p).read()
                if s.count(old) != 1:
                    print(f"[{name}] edit does not apply uniquely in {f} (count={s.count(old)})")
                    ok = False
                    break
                open(p, "w").write(s.replace(old, new))
            if not ok:
                results[name] = "edit-failed"
                continue
            sh("gofmt -w $(git diff --name-only)", cwd=WT)
            b = sh("go build ./... && go vet ./... 2>&1 | head -5", cwd=WT)
            if b.returncode != 0:
                print(f"[{name}] does not build:\n{b.stderr[-800:]}")
                results[name] = "build-failed"
                continue
            t = sh("go test -vet=off -count=1 ./... 2>&1 | tail -40", cwd=WT)
            if "FAIL" in t.stdout or t.returncode != 0:
                print(f"[{name}] killed by the existing test suite:\n" + "\n".join(l for l in t.stdout.splitlines() if "FAIL" in l or "---" in l)[:600])
                results[name] = "killed-by-tests"
                continue
            d = sh("git diff", cwd=WT)
            with open(os.path.join(OUT, name + ".patch"), "w") as fh:
                fh.write(f"# property: {prop}\n# what: {why}\n# status: compiles, existing test suite passes\n" + d.stdout)
            results[name] = "ok"
            print(f"[{name}] ok")
    finally:
        sh(f"git -C /repo worktree remove --force {WT}")
    json.dump(results, open(os.path.join(OUT, "BUILD_RESULTS.json"), "w"), indent=1, sort_keys=True)
    print(json.dumps(results, indent=1, sort_keys=True))

if __name__ == "__main__":
    main()
