#!/bin/bash
# tools/seeddemo.sh <worktree> <demo-src (in SEED)> <dest path in tree> <go test command...>
# Confirms a seeded change's demonstration: FAILS with the change applied, PASSES with it stashed.
set -u
export GOFLAGS=-mod=mod GOPROXY=off GOSUMDB=off GOTOOLCHAIN=local
wt="$1"; src="$2"; dst="$3"; shift 3
cd "$wt" || exit 2
cp "SEED/$src" "$dst"
echo "== with the change applied:"; "$@" 2>&1 | tail -6; rc1=${PIPESTATUS[0]}
git diff > /tmp/seeddemo.$$.patch; git apply -R /tmp/seeddemo.$$.patch || exit 2
echo "== with the change stashed:"; "$@" 2>&1 | tail -3; rc2=${PIPESTATUS[0]}
git apply /tmp/seeddemo.$$.patch; rm -f /tmp/seeddemo.$$.patch
rm -f "$dst"
echo "== demo with change rc=$rc1 (expect !=0), without rc=$rc2 (expect 0)"
