#!/bin/bash
# Self-tests of the simulator itself (not a property check):
#   tools/selftest.sh determinism [ids...]   same VERIF_SEED => same plans, event logs and verdicts, across
#                                            processes, GOMAXPROCS 1/4/16 and process boundaries
#   tools/selftest.sh mutants [names...]     every mutants/*.patch must be reported as a VIOLATION by the quick
#                                            check of its property, and the replay file must reproduce it
set -u
HERE="$(cd "$(dirname "${BASH_SOURCE[0]}")/.." && pwd)"
export GOFLAGS=-mod=mod GOPROXY=off GOSUMDB=off GOTOOLCHAIN=local
cd "$HERE"
mode="${1:-}"; shift || true
modkey() { printf '%s' "$1" | sha256sum | cut -c1-12; }

case "$mode" in
determinism)
  ./check build >/dev/null || { echo "build failed"; exit 2; }
  k=$(modkey "${VERIF_REPO:-/repo}")
  ids=("$@"); [ ${#ids[@]} -eq 0 ] && ids=(C01 C02 C03 C05 C06 C08 C11 C12 C13 C15 C16 C19 C20)
  N=${SELFTEST_RUNS:-200}
  tmp=$(mktemp -d /tmp/selftest.XXXXXX); trap 'rm -rf "$tmp"' EXIT
  fail=0
  for id in "${ids[@]}"; do
    bin="$HERE/build/agesim.$k"; extra=()
    case "$id" in
      C16) bin="$HERE/build/plugsim.$k";;
      C20) bin="$HERE/build/agesim-race.$k"; export GORACE="log_path=$tmp/race halt_on_error=0 exitcode=0" AGESIM_RACE_LOG="$tmp/race" AGESIM_AST_BIN="$HERE/build/agesim-ast.$k";;
      C15|C11) export AGE_BIN="$HERE/build/age.$k" KEYGEN_BIN="$HERE/build/age-keygen.$k";;
    esac
    n=$N; [ "$id" = C15 ] && n=$((N/4)); [ "$id" = C20 ] && n=$((N/2))
    for seed in 1 7 12345; do
      GOMAXPROCS=1  "$bin" hashes -prop "$id" -seed $seed -from 0 -to $n > "$tmp/$id.$seed.a" 2>/dev/null &
      GOMAXPROCS=4  "$bin" hashes -prop "$id" -seed $seed -from 0 -to $n > "$tmp/$id.$seed.b" 2>/dev/null &
      # process boundary in the middle (what another worker count does to in-process history)
      ( GOMAXPROCS=16 "$bin" hashes -prop "$id" -seed $seed -from 0 -to $((n/3)) ; GOMAXPROCS=16 "$bin" hashes -prop "$id" -seed $seed -from $((n/3)) -to $n ) > "$tmp/$id.$seed.c" 2>/dev/null &
    done
    wait
    for seed in 1 7 12345; do
      if grep -q 'verdict=harness' "$tmp/$id.$seed.a"; then echo "DETERMINISM $id seed=$seed: harness errors in the runs"; fail=1; fi
      lines=$(wc -l < "$tmp/$id.$seed.a")
      if [ "$lines" -ne "$n" ]; then echo "DETERMINISM $id seed=$seed: expected $n lines, got $lines"; fail=1; fi
      if [ "$id" = C20 ]; then
        # the race stage is free-running by design: compare plans, verdicts and the scheduled stage only
        f() { grep -v 'events=1 ' "$1"; }   # race-stage runs log exactly one event
        if ! diff <(f "$tmp/$id.$seed.a") <(f "$tmp/$id.$seed.b") >/dev/null || ! diff <(f "$tmp/$id.$seed.a") <(f "$tmp/$id.$seed.c") >/dev/null; then
          echo "DETERMINISM $id seed=$seed: scheduled-stage logs differ"; fail=1; fi
        if ! diff <(cut -d' ' -f1,2,5 "$tmp/$id.$seed.a") <(cut -d' ' -f1,2,5 "$tmp/$id.$seed.c") >/dev/null; then
          echo "DETERMINISM $id seed=$seed: plans or verdicts differ"; fail=1; fi
      else
        if ! diff "$tmp/$id.$seed.a" "$tmp/$id.$seed.b" >/dev/null || ! diff "$tmp/$id.$seed.a" "$tmp/$id.$seed.c" >/dev/null; then
          echo "DETERMINISM $id seed=$seed: event logs differ between processes"; diff "$tmp/$id.$seed.a" "$tmp/$id.$seed.c" | head -4; fail=1; fi
      fi
    done
    echo "determinism $id: 3 seeds x $n runs x 3 process configurations compared"
  done
  [ $fail -eq 0 ] && echo "determinism: OK" || { echo "determinism: FAILED"; exit 1; }
  ;;
mutants)
  names=("$@")
  res="$HERE/mutants/SELFTEST_RESULTS.txt"; : > "$res.tmp"
  fail=0
  for patch in "$HERE"/mutants/*.patch; do
    name=$(basename "$patch" .patch)
    if [ ${#names[@]} -gt 0 ]; then case " ${names[*]} " in *" $name "*) ;; *) continue;; esac; fi
    prop=$(sed -n 's/^# property: //p' "$patch" | head -1)
    wt=/tmp/age-selftest-wt
    git -C /repo worktree remove --force $wt >/dev/null 2>&1
    git -C /repo worktree add -q $wt HEAD || { echo "worktree failed"; exit 2; }
    if ! git -C $wt apply "$patch"; then echo "$name: patch does not apply" | tee -a "$res.tmp"; fail=1; git -C /repo worktree remove --force $wt; continue; fi
    rep="$HERE/build/selftest-replays-$name"; rm -rf "$rep"; mkdir -p "$rep"
    out=$(VERIF_REPO=$wt AGESIM_RUN_LIMIT_S=${SELFTEST_RUN_LIMIT_S:-90} "$HERE/check" "$prop" quick -replays "$rep" -evidence "$rep/evidence.json" 2>&1); rc=$?
    line=$(echo "$out" | grep -m1 '^violation:' | cut -c1-220)
    if [ $rc -eq 1 ] && echo "$out" | grep -q "^VIOLATION property=$prop "; then
      rf=$(echo "$out" | sed -n 's/^VIOLATION property=[A-Z0-9]* replay=//p' | head -1)
      rout=$(VERIF_REPO=$wt "$HERE/check" replay "$rf" 2>&1); rrc=$?
      if [ $rrc -eq 1 ] && echo "$rout" | grep -q "reproduced_exactly=true"; then
        echo "$name: CAUGHT by $prop, replay reproduces exactly :: $line" | tee -a "$res.tmp"
      elif [ $rrc -eq 1 ]; then
        echo "$name: CAUGHT by $prop, replay reproduces the violation (log hash differs) :: $line" | tee -a "$res.tmp"
      else
        echo "$name: CAUGHT by $prop but REPLAY DID NOT REPRODUCE (rc=$rrc)" | tee -a "$res.tmp"; fail=1
      fi
    elif [ $rc -eq 2 ] && echo "$out" | grep -q "^WATCHDOG property=$prop "; then
      echo "$name: NOTICED by the watchdog of $prop (a run hung; exit 2, not a VIOLATION) :: $(echo "$out" | grep -m1 '^WATCHDOG' | cut -c1-200)" | tee -a "$res.tmp"
    else
      echo "$name: MISSED by $prop (rc=$rc)" | tee -a "$res.tmp"; fail=1
    fi
    rm -rf "$rep"
    k=$(modkey $wt); rm -f "$HERE"/build/*."$k" "$HERE"/build/go."$k".*
    git -C /repo worktree remove --force $wt
  done
  if [ ${#names[@]} -gt 0 ] && [ -f "$res" ]; then
    # a partial run: replace only the lines of the mutants that were run
    for n in "${names[@]}"; do grep -v "^$n: " "$res" > "$res.keep" || true; mv "$res.keep" "$res"; done
    cat "$res.tmp" >> "$res"; sort -o "$res" "$res"; rm -f "$res.tmp"
  else
    mv "$res.tmp" "$res"
  fi
  [ $fail -eq 0 ] && echo "mutants: all caught" || { echo "mutants: some missed"; exit 1; }
  ;;
*) echo "usage: selftest.sh determinism|mutants"; exit 2;;
esac
