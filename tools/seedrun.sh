#!/bin/bash
# tools/seedrun.sh <name> <worktree-with-change-applied> <property> [more properties...]
# Stores the seeded change under /verif/seeded/<name>/, re-verifies that the tree with the change builds and
# passes the existing test suite, then runs the quick check(s) against that tree (VERIF_REPO=<worktree>).
set -u
HERE="$(cd "$(dirname "${BASH_SOURCE[0]}")/.." && pwd)"
export GOFLAGS=-mod=mod GOPROXY=off GOSUMDB=off GOTOOLCHAIN=local
name="$1"; wt="$2"; shift; shift
dst="$HERE/seeded/$name"; mkdir -p "$dst"
cp -r "$wt"/SEED/* "$dst"/ 2>/dev/null
( cd "$wt" && git diff -- . ':(exclude)SEED' > "$dst/patch.diff" )
echo "--- patch: $(grep -c '^[-+][^-+]' "$dst/patch.diff") changed lines in: $(grep '^diff --git' "$dst/patch.diff" | sed 's/.* b\///' | tr '\n' ' ')"
mv "$wt/SEED" "/tmp/SEED-$name.$$"   # keep SEED out of ./... while building
( cd "$wt" && go build ./... && go test -vet=off -count=1 ./... 2>&1 | grep -v '^ok\|no test files' ; echo "suite rc=${PIPESTATUS[0]}" ) 2>&1 | tail -5
mv "/tmp/SEED-$name.$$" "$wt/SEED"
for prop in "$@"; do
  rep="$HERE/build/seed-replays-$name-$prop"; rm -rf "$rep"; mkdir -p "$rep"
  out=$(VERIF_REPO="$wt" "$HERE/check" "$prop" quick -replays "$rep" -evidence "$rep/evidence.json" 2>&1); rc=$?
  echo "--- $prop quick against $name: rc=$rc"
  echo "$out" | grep -m2 '^violation:' | cut -c1-400
  echo "$out" | tail -1
  if [ $rc -eq 1 ]; then
    rf=$(echo "$out" | sed -n 's/^VIOLATION property=[A-Z0-9]* replay=//p' | head -1)
    VERIF_REPO="$wt" "$HERE/check" replay "$rf" 2>&1 | tail -2
    cp "$rf" "$dst/replay-$prop.json" 2>/dev/null
  fi
  rm -rf "$rep"
done
k=$(printf '%s' "$wt" | sha256sum | cut -c1-12); rm -f "$HERE"/build/*."$k" "$HERE"/build/go."$k".*
