#!/usr/bin/env python3
# Generates /verif/MANIFEST.json (kept in one place so the 13 claimed checks stay consistent).
import json, subprocess, os
HERE = os.path.dirname(os.path.dirname(os.path.abspath(__file__)))
def hooks_commits():
    try:
        out = subprocess.check_output(["git", "-C", "/repo", "log", "--format=%H %s"], text=True)
        return [l.split()[0] for l in out.splitlines() if " verif hook:" in l or l.split(" ",1)[1].startswith("verif:")]
    except Exception:
        return []
checks = {
 "C01": ("exploration", "4.1", "seeded simulation, fault-free configuration vs reference model",
   "Seeded sampling of the fault-free world (mixed recipient lists, identity order, chunk-boundary lengths, armor, write/delivery/read schedules); the progress half of the simulation. No fault or schedule appears in C01 itself, so nothing stronger than sampling is claimed.",
   "real age library end to end; stubs: dst/src/rand seams; fixture keys"),
 "C02": ("fault_enumeration", "4.2", "deterministic simulation: storage faults, writer crash points and byzantine re-chunking on the payload, replayed under several delivery schedules",
   "Exhaustive bit flips and truncation lengths over the payload region of small files, plus seeded faults (insert/delete/extend/drop/dup/swap/move/misdirect chunk writes, with-key chunk sequences up to length 5) on multi-chunk files near chunk boundaries, each under >=3 delivery schedules. Exhaustive only for the small-file fault space; sampled elsewhere.",
   "ChaCha20-Poly1305/HKDF and the reference STREAM model trusted; key-holding attacker limited to re-chunking one plaintext"),
 "C03": ("fault_enumeration", "4.3", "deterministic simulation: stored-byte corruption, lost/duplicated/reordered header writes and keyless structural edits of the header",
   "Exhaustive single-bit flips over the header of small files for every identity able to open the original, plus seeded byte-level, write-level and structural edits (reference writer, MAC stale/random/other key) on files of 1..5 stanzas.",
   "editor does not hold the file key; HMAC/HKDF trusted"),
 "C05": ("exploration", "4.4", "deterministic simulation through the randomness seam: differential refinement against an independent reference encoder/decoder, frozen corpus",
   "Seeded (plaintext, recipients, tape) triples: library output must equal the reference encoding of the values recovered by role from the tape; reference-written files and a frozen 96-file corpus must decrypt; one 257-chunk file per batch. Sampling; edge of the technique family (needs the randomness seam to be stated at all).",
   "reference model validated on the 114 CCTV vectors; counters above 2^16 out of reach"),
 "C06": ("exploration", "4.5", "deterministic simulation of the randomness seam (generating and recording tapes), process histories",
   "Every secret of a file is located in the tape's output in pairwise disjoint regions, two tapes give disjoint secrets with reused recipient objects, chunk nonces open only under (index, final=last); histories of 20..200 encryptions over the recorded real CSPRNG have pairwise distinct secrets.",
   "all secrets reach the code via crypto/rand.Reader (default toolchain); CLI passphrase generator not observed"),
 "C08": ("exploration", "4.6", "deterministic simulation: write-call schedules into the armor writer, line-level transport corruption and delivery/read schedules into the armor reader",
   "Seeded write schedules (incl. none, only empty writes) against the reference armor; seeded transport corruptions (1..3 per text) and small-text sweeps (every truncation, 5 substitutions per byte) against 'accepted => canonical up to CRLF/outer whitespace, else *armor.Error and sticky'.",
   "reference armor codec; ASCII whitespace only for the tolerated margins"),
 "C11": ("exploration", "4.7", "deterministic simulation: label sets and injected wrap failures at every position, destination seam observed for writes",
   "Seeded recipient lists with label-set relations (equal/reordered/subset/disjoint/empty-vs-absent/scrypt) and an injected Wrap failure at any position; Encrypt must succeed iff sets equal and nothing failed, and a refusal must have issued zero Write calls.",
   "duplicate-free label lists; plugin label path covered in C16 engine"),
 "C12": ("exploration", "4.8", "deterministic simulation: write segmentation x delivery schedule x read-buffer schedule with hold-back and read-ahead monitors",
   "Seeded schedules over valid and damaged images: output bytes (fixed tape), released plaintext and terminal error text must be schedule-independent; monitors bound plaintext held back by the writer and ciphertext read ahead by the reader after every call.",
   "read-ahead bound = one further chunk + one buffer page"),
 "C13": ("fault_enumeration", "4.9", "deterministic simulation with I/O fault injection at every write index / byte offset of the destination and every byte offset of the source",
   "Exhaustive fault points on small files (every write call x {permanent,once} x {none,partial}, every destination byte offset, every source offset x K x {sticky,once-data,once-eof}), seeded fault points near boundaries on multi-chunk files, binary and armored, plus armor writer/reader alone.",
   "recovering (once) sources use the relaxed oracle documented in DESIGN 4.9"),
}
na = [
 ("C04", "outcome of Decrypt(file, non-matching identities) is a pure function of its arguments: no schedule, fault, peer, history or interleaving to simulate (DESIGN 5)"),
 ("C07", "format.Parse/Marshal canonicity over all byte strings is bounded enumeration / grammar fuzzing of a pure function; its one I/O clause (over-read handed back) is decided under C12, edited headers under C03 (DESIGN 5)"),
 ("C09", "Bech32 round trip, canonicity and typo detection are pure string functions (DESIGN 5)"),
 ("C10", "which recipient lists/headers a passphrase identity accepts and the work-factor grammar are pure functions of the list/header; clause 1 exercised as by-product of C11 (DESIGN 5)"),
 ("C14", "no-panic/no-hang over arbitrary bytes is coverage-guided fuzzing of parsers, another technique family (DESIGN 5)"),
 ("C17", "plugin-name validation is a string predicate and PATH lookup lies behind the exec the simulator replaces (DESIGN 5)"),
 ("C18", "key-file parsing is a pure function of the file text (DESIGN 5)"),
]
extra = json.load(open(os.path.join(HERE, "tools", "manifest_extra.json"))) if os.path.exists(os.path.join(HERE, "tools", "manifest_extra.json")) else {}
for k, v in extra.get("checks", {}).items():
    checks[k] = tuple(v)
na = [x for x in na if x[0] not in checks]
for k, v in extra.get("not_applicable", {}).items():
    if k not in checks:
        na.append((k, v))
m = {
 "version": 1,
 "setup_cmd": "./check build",
 "hooks": {
   "guard": "verif",
   "enable": "go build -tags verif (the check script passes it to every build of the simulator; the plugin transport hook in plugin/verif_on.go is compiled only then)",
   "baseline_off_cmd": "cd /repo && GOFLAGS=-mod=mod go test -json -vet=off -count=1 -timeout 25m ./...",
   "source_commits": hooks_commits(),
   "add_only": True,
 },
 "engines": [
   {"name": "agesim", "path": "sim/cmd/agesim", "serves_properties": sorted(k for k in checks if k not in ("C16",)), "kind_free_text": "deterministic simulator (seeded plans, fault injection at dst/src/rand/callback seams, shrinking, replay files), default toolchain"},
 ] + ([{"name": "plugsim", "path": "sim/cmd/plugsim", "serves_properties": ["C16"], "kind_free_text": "scripted plugin peer over a simulated transport inside a testing/synctest bubble (fake clock), go1.26.8"}] if "C16" in checks else []),
 "checks": [],
 "not_applicable": [{"property_id": k, "reason": r} for k, r in sorted(na)],
 "notes": "All checks: ./check <id> quick|thorough [-seed N]; VERIF_SEED is honoured. Exit 0 held / 1 VIOLATION (replay file under /verif/replays, re-run with ./check replay <file>) / 2 build or harness trouble. Known findings: /verif/KNOWN_FINDINGS.txt.",
}
for k in sorted(checks):
    lvl, sec, tech, text, note = checks[k]
    m["checks"].append({
      "property_id": k,
      "quick_cmd": f"./check {k} quick",
      "thorough_cmd": f"./check {k} thorough",
      "evidence_file": f"/verif/evidence/{k}.json",
      "replay_cmd_template": "./check replay {path}",
      "engine": "plugsim" if k == "C16" else "agesim",
      "level_claimed": {"category": lvl, "text": text, "design_ref": "DESIGN.md §" + sec},
      "level_note": note,
      "technique": tech,
    })
json.dump(m, open(os.path.join(HERE, "MANIFEST.json"), "w"), indent=1)
print("MANIFEST.json:", len(m["checks"]), "checks,", len(m["not_applicable"]), "n/a")
