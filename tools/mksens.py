#!/usr/bin/env python3
"""Regenerates DESIGN.md section 12 from mutants/SELFTEST_RESULTS.txt, mutants/*.patch and seeded/*/meta.json."""
import json, os, re, glob
HERE = os.path.dirname(os.path.dirname(os.path.abspath(__file__)))
out = []
out.append("## 12. Sensitivity: which checks catch which broken trees\n")
out.append("Two independent sets of deliberately broken trees, every one of which compiles and keeps the")
out.append("repository's own test suite green (re-verified by `tools/mkmutants.py` / `tools/seedrun.sh`).\n")
out.append("### 12.1 Mutants written with knowledge of the engines (`mutants/*.patch`, `tools/selftest.sh mutants`)\n")
res = {}
p = os.path.join(HERE, "mutants", "SELFTEST_RESULTS.txt")
if os.path.exists(p):
    for l in open(p):
        name, _, rest = l.partition(": ")
        res[name] = rest.strip()
killed = []
br = os.path.join(HERE, "mutants", "BUILD_RESULTS.json")
if os.path.exists(br):
    for k, v in sorted(json.load(open(br)).items()):
        if v != "ok":
            killed.append(f"`{k}` ({v})")
out.append("| mutant | property | what it does | result of the property's quick check |")
out.append("|---|---|---|---|")
for f in sorted(glob.glob(os.path.join(HERE, "mutants", "*.patch"))):
    name = os.path.basename(f)[:-6]
    txt = open(f).read()
    prop = re.search(r"^# property: (\S+)", txt, re.M).group(1)
    what = re.search(r"^# what: (.*)", txt, re.M).group(1)
    r = res.get(name, "(not run)")
    clause = re.search(r"clause=(\S+)", r)
    short = r.split(" ::")[0]
    if clause:
        short += f" (`{clause.group(1)}`)"
    out.append(f"| `{name}` | {prop} | {what} | {short} |")
out.append("")
if killed:
    out.append("Candidates dropped because the existing test suite (or the compiler) already rejects them: " + ", ".join(killed) + ".")
    out.append("")
out.append("Candidates dropped because they turned out not to break the property (an alarm on them would be a false alarm): X25519 argument with trailing `=` trimmed (the re-marshalled header still fails the MAC), trailing-whitespace bound 2048 instead of 1024 (the property states no bound), a writer that delays its first chunk (never exceeds one chunk), ignoring the error of closing the output file (no fault in reach makes close fail), a same-file check variant that still resolved every spelling.\n")
out.append("### 12.2 Changes seeded by independent sub-agents (`seeded/<id>/`)\n")
out.append("Each agent got only the text of one property and a scratch worktree (later waves also a one-line note of sites already taken), nothing from /verif. Kept only after I confirmed: builds, suite green, demonstration fails with the change and passes without it.\n")
out.append("| id | property | change (short) | needs, to manifest | detected by |")
out.append("|---|---|---|---|---|")
missed_first = []
for d in sorted(glob.glob(os.path.join(HERE, "seeded", "*"))):
    mp = os.path.join(d, "meta.json")
    if not os.path.exists(mp):
        continue
    m = json.load(open(mp))
    det = "; ".join(f"**{k}**: {v}" for k, v in m["detected_by"].items())
    if "MISSED" in det or "luck" in det:
        missed_first.append(m["id"])
    chg = m["change"]
    if len(chg) > 260:
        chg = chg[:257] + "..."
    out.append(f"| {m['id']} | {m['property']} | {chg} | {m['needs_to_manifest']} | {det} |")
out.append("")
out.append(f"Seeded changes that the checks as first built missed (or caught only by luck) and that led to a stronger check: {', '.join(missed_first) if missed_first else 'none'}. After the strengthening every seeded change is reported by the quick check of its property with a replay file that reproduces.")
out.append("")
sec = "\n".join(out)
dp = os.path.join(HERE, "DESIGN.md")
s = open(dp).read()
i = s.index("## 12. Sensitivity")
s = s[:i] + sec
open(dp, "w").write(s)
print("section 12:", len(out), "lines")
