#!/bin/bash
# tools/seedregress.sh [jobs] [ids...]   regression over the kept seeded changes with the CURRENT engines:
# every seeded/<id>/patch.diff that still applies to /repo's HEAD is applied in a scratch worktree under /tmp and
# the quick check that meta.json names as the detecting one is run against it (VERIF_REPO). Expected: exit 1.
# Prints one line per seed: CAUGHT / MISSED / HARNESS (exit 2) / STALE (patch no longer applies, e.g. it touched
# lines that a later fix: commit rewrote). Results go to SEEDREGRESS_RESULTS.txt.
set -u
HERE="$(cd "$(dirname "${BASH_SOURCE[0]}")/.." && pwd)"
export GOFLAGS=-mod=mod GOPROXY=off GOSUMDB=off GOTOOLCHAIN=local
jobs="${1:-3}"; shift || true
ids=("$@"); [ ${#ids[@]} -eq 0 ] && ids=($(ls "$HERE/seeded"))
one() {
  id="$1"; d="$HERE/seeded/$id"
  [ -f "$d/meta.json" ] && [ -s "$d/patch.diff" ] || { echo "$id SKIP (no meta or patch)"; return; }
  prop=$(python3 - "$d/meta.json" <<'EOF'
import json,re,sys
d=json.load(open(sys.argv[1]))
pick=None
for k,v in d.get("detected_by",{}).items():
    if str(v).startswith("VIOLATION"):
        m=re.match(r"(C\d\d)",k)
        if m: pick=m.group(1); break
print(pick or d["property"])
EOF
)
  wt="/tmp/rg-$id"
  git -C /repo worktree add --detach -q "$wt" HEAD 2>/dev/null || { echo "$id HARNESS (worktree)"; return; }
  if ! git -C "$wt" apply --whitespace=nowarn "$d/patch.diff" 2>/dev/null && ! { git -C "$wt" apply --3way --whitespace=nowarn "$d/patch.diff" >/dev/null 2>&1 && [ -z "$(git -C "$wt" diff --name-only --diff-filter=U)" ]; }; then
    echo "$id STALE"
  elif ! (cd "$wt" && go build ./... 2>/dev/null); then
    echo "$id STALE (applies, does not build)"
  else
    rep="/tmp/rg-rep-$id"; rm -rf "$rep"; mkdir -p "$rep"
    out=$(VERIF_REPO="$wt" "$HERE/check" "$prop" quick -workers 5 -replays "$rep" -evidence "$rep/evidence.json" 2>&1); rc=$?
    case $rc in
      1) echo "$id CAUGHT by $prop quick: $(echo "$out" | grep -m1 -o 'clause=[A-Za-z0-9_.]*')";;
      0) echo "$id MISSED by $prop quick";;
      *) echo "$id HARNESS rc=$rc by $prop quick: $(echo "$out" | grep -m1 'WATCHDOG\|HARNESS\|failed' | cut -c1-160)";;
    esac
    rm -rf "$rep"
  fi
  git -C /repo worktree remove --force "$wt" 2>/dev/null
  k=$(printf '%s' "$wt" | sha256sum | cut -c1-12); rm -f "$HERE"/build/*."$k" "$HERE"/build/go."$k".* "$HERE"/build/go.ast."$k".*
}
export -f one; export HERE
printf '%s\n' "${ids[@]}" | xargs -P "$jobs" -I{} bash -c 'one {}' | tee /tmp/seedregress.$$.txt
# merge with earlier results: a re-run of some ids replaces only their lines
touch "$HERE/SEEDREGRESS_RESULTS.txt"
{ cut -d' ' -f1 /tmp/seedregress.$$.txt | grep -v -x -F -f - <(awk '{print $1}' "$HERE/SEEDREGRESS_RESULTS.txt") | while read -r keep; do grep "^$keep " "$HERE/SEEDREGRESS_RESULTS.txt"; done; cat /tmp/seedregress.$$.txt; } | sort -u > /tmp/seedregress.$$.merged
mv /tmp/seedregress.$$.merged "$HERE/SEEDREGRESS_RESULTS.txt"; rm -f /tmp/seedregress.$$.txt
echo "--- $(grep -c CAUGHT "$HERE/SEEDREGRESS_RESULTS.txt") caught, $(grep -c MISSED "$HERE/SEEDREGRESS_RESULTS.txt") missed, $(grep -c STALE "$HERE/SEEDREGRESS_RESULTS.txt") stale, $(grep -c HARNESS "$HERE/SEEDREGRESS_RESULTS.txt") harness"
