#!/usr/bin/env python3
"""tools/seedprep.py <suffix> [ids...]
Prepares one wave of independent seeding: for every property a scratch git worktree of /repo at
/tmp/wt-<id>-<suffix> and a task file /tmp/wt-<id>-<suffix>.task.txt holding ONLY the task template, the
property text and one-line descriptions of the changes earlier agents already made for that property
(so that a new agent looks elsewhere). Nothing from /verif's machinery goes into the task."""
import sys, os, json, glob, subprocess
here = os.path.dirname(os.path.abspath(__file__))
suf = sys.argv[1]
ids = sys.argv[2:] or "C01 C02 C03 C05 C06 C08 C11 C12 C13 C15 C16 C19 C20".split()
tmpl = open(os.path.join(here, "seedprompts", "TEMPLATE.txt")).read()
for pid in ids:
    wt = f"/tmp/wt-{pid}-{suf}"
    if not os.path.isdir(wt):
        subprocess.check_call(["git", "-C", "/repo", "worktree", "add", "--detach", "-q", wt, "HEAD"])
    prop = open(os.path.join(here, "seedprompts", pid + ".txt")).read().strip()
    done = []
    for m in sorted(glob.glob(os.path.join(here, "..", "seeded", pid + "-*", "meta.json"))):
        d = json.load(open(m))
        done.append(f"  - {d['change']} (needed: {d['needs_to_manifest']})")
    t = tmpl.replace("WORKTREE", wt).replace("PROPERTY", prop)
    t += "\n\nChanges ALREADY made by others for this property (do NOT repeat these or close variants of them; choose a different code site AND a different mechanism, ideally a different clause of the property or a different component it is anchored in):\n" + "\n".join(done) + "\n"
    t += "\nNever use `git stash` (the stash is shared between worktrees); to test without your change use `git diff > /tmp/" + f"wt-{pid}-{suf}.patch; git apply -R /tmp/wt-{pid}-{suf}.patch` and re-apply with `git apply`.\n"
    open(wt + ".task.txt", "w").write(t)
    print(wt, len(done), "earlier changes listed")
