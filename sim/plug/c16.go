//go:build go1.25

// Package plug is the C16 engine: the plugin client of filippo.io/age talking
// to a scripted peer over a simulated transport (behind the verif hook), inside
// a testing/synctest bubble so that stalls and the client's 5 s timer run on a
// fake clock. Needs go1.25+ (built with go1.26.8).
package plug

import (
	"bytes"
	"errors"
	"fmt"
	"io"
	"strings"
	"sync/atomic"
	"testing"
	"testing/synctest"
	"time"

	"filippo.io/age"
	"filippo.io/age/plugin"

	"verif/sim/core"
	"verif/sim/ref"
)

// T must be set by the hosting test binary before any Execute.
var T *testing.T

type PMsg struct {
	Kind    string   `json:"kind"` // rs labels filekey error msg reqsecret reqpublic confirm unknown done raw
	Args    []string `json:"args,omitempty"`
	BodyLen int      `json:"body_len,omitempty"`
	Text    string   `json:"text,omitempty"` // error/msg/prompt text (becomes the body)
	Raw     string   `json:"raw,omitempty"`  // kind raw: literal bytes
	Frag    string   `json:"frag,omitempty"` // whole | line | byte
	StallMs int      `json:"stall_ms,omitempty"`
}

type UISpec struct {
	Display   string `json:"display"` // nil err ok
	Request   string `json:"request"` // nil err val
	Confirm   string `json:"confirm"` // nil err yes no
	WaitTimer bool   `json:"wait_timer"`
}

type Plan struct {
	Machine     string `json:"machine"` // recipient | identity | identity-as-recipient
	Name        string `json:"name"`
	NStanzas    int    `json:"n_stanzas"`            // identity machine: stanzas handed to Unwrap
	PlainWrap   bool   `json:"plain_wrap,omitempty"` // recipient machines: enter through Wrap (the plain age.Recipient method) instead of WrapWithLabels
	Shape       int    `json:"shape,omitempty"`      // identity machine: two bits per stanza choose its arguments: 0 two, 1 none at all, 2 one, 3 five
	Msgs        []PMsg `json:"msgs"`
	DeathAt     int    `json:"death_at"`  // -1: peer lives; k: dies before delivering message k (k == len(msgs): after all)
	DeathCut    int    `json:"death_cut"` // >0: delivers this many bytes of message death_at, then dies
	DeadAtStart bool   `json:"dead_at_start,omitempty"`
	Coalesce    int    `json:"coalesce,omitempty"` // 1: the peer writes without waiting for replies and one read returns everything up to the buffer size; 2: two transport segments at a time
	UI          UISpec `json:"ui"`
}

type Engine struct{}

func (Engine) ID() string           { return "C16" }
func (Engine) Title() string        { return "scripted plugin peer over a simulated transport, fake clock" }
func (Engine) NewPlan() interface{} { return &Plan{} }
func (Engine) Runs(tier string) int {
	if tier == "thorough" {
		return 20000000
	}
	return 800000
}

func (Engine) Meta() core.Meta {
	return core.Meta{
		Level:       "exploration",
		Rule:        "a case = one conversation: state machine (recipient / identity / identity used as recipient / identity as the first of two identities inside age.Decrypt, where a missing file key must hand over to the next identity and a protocol failure must not), UI callback subset (each nil / failing / answering, WaitTimer set or not), and a peer script of up to 8 messages over the protocol alphabet (recipient-stanza with index 0/1/-1/non-numeric/missing type, labels first/repeated/empty, file-key valid/duplicate/extra args/bad index, error, msg, request-secret/public, confirm with 0..3 args and bad base64, unknown command, done, a first line of 4 to 70 KB (long argument); malformed framing: no arrow, long body line, missing short line, non-canonical base64, CR, padding), each message delivered whole/per line/per byte, optional stalls of 0/4.9/5.1/60/3600 s before a message (fake clock), peer death before intake / between messages / mid-line / mid-body. Oracle: executable model of the client written from the statement (expected reply per message, final result class and values, well-formed phase-1 transcript), bounded liveness after the peer's last action. Non-trivial = at least one message besides done; distinct = distinct (machine, UI, script skeleton, death point).",
		Assumptions: []string{"where the statement prescribes nothing (malformed confirm, file-key with an empty body) the model only requires termination with an error or a prescribed result", "no timing oracle: WaitTimer firings are probes only", "a peer that stays alive and silent forever is not generated (waiting for it is what the protocol prescribes)", "exec/PATH lookup is replaced by the hook and not observed (C17)"},
		Real:        []string{"filippo.io/age/plugin client (Recipient.WrapWithLabels, Identity.Unwrap, ClientUI.handle/readStanza)", "internal/format StanzaReader and Stanza.Marshal", "time.AfterFunc on the bubble's fake clock"},
		Stub:        []string{"plugin process and its pipes (plugin.VerifTransport hook, build tag verif)", "ClientUI callbacks", "wall clock (testing/synctest bubble)"},
		FaultKinds:  []string{"fault.death_at_start", "fault.death_between_messages", "fault.death_mid_message", "fault.stall", "fault.malformed_framing", "fault.bad_index", "fault.repeated_labels", "fault.duplicate_file_key", "fault.error_message", "fault.unknown_command", "fault.ui_callback_missing_or_failing"},
		Probes:      []string{"probe.wait_timer_fired", "probe.success_recipient", "probe.success_identity", "probe.incorrect_identity", "probe.error_text_propagated", "probe.zero_stanzas", "probe.fragment_per_byte", "probe.fragment_per_line", "probe.lenient_tail", "probe.prompt_answered", "probe.confirm_answered", "probe.name_checked", "probe.inside_age_decrypt", "probe.coalesced_delivery", "probe.first_line_beyond_4096", "probe.entered_through_plain_wrap"},
	}
}

var stalls = []int{0, 0, 0, 4900, 5100, 60000, 3600000}

func genMsg(r *core.RNG, machine string) PMsg {
	m := PMsg{Frag: []string{"whole", "whole", "line", "byte"}[r.Intn(4)]}
	if r.Chance(1, 10) {
		m.StallMs = stalls[r.Intn(len(stalls))]
	}
	own := "rs"
	if machine == "identity" {
		own = "filekey"
	}
	switch c := r.Intn(20); {
	case c < 6:
		m.Kind = own
		if own == "rs" {
			m.Args = []string{"0", "X25519", ref.B64(core.Pattern(r.U64()%50, 32))}
			m.BodyLen = r.Pick(0, 16, 32, 47, 48, 49, 96, 100)
			switch r.Intn(10) {
			case 0:
				m.Args[0] = "1"
			case 1:
				m.Args[0] = "-1"
			case 2:
				m.Args[0] = "x"
			case 3:
				m.Args = m.Args[:1] // missing type
			case 4:
				m.Args = []string{"0", "custom-type"}
			}
		} else {
			m.Args = []string{"0"}
			m.BodyLen = 16
			switch r.Intn(10) {
			case 0:
				m.Args[0] = "1"
			case 1:
				m.Args[0] = "zero"
			case 2:
				m.Args = []string{"0", "extra"}
			case 3:
				m.Args = nil
			case 4:
				m.BodyLen = r.Pick(0, 15, 17, 32)
			}
		}
	case c < 8:
		m.Kind = "labels"
		n := r.Intn(3)
		for i := 0; i < n; i++ {
			m.Args = append(m.Args, []string{"postquantum", "a", "zz"}[r.Intn(3)])
		}
	case c < 9:
		m.Kind = "error"
		m.Args = []string{[]string{"internal", "recipient", "identity", "stanza"}[r.Intn(4)]}
		m.Text = []string{"plugin exploded", "", "no such token", "x", "token storage is 100% full", "%s %d %w %!v(MISSING) %%"}[r.Intn(6)]
	case c < 11:
		m.Kind = "msg"
		m.Text = []string{"insert your key", "50% done %s"}[r.Intn(2)]
	case c < 12:
		m.Kind = "reqsecret"
		// the answer is "answer to "+text: lengths 14, 47, 48, 49, 96 (body lines exactly full or not)
		m.Text = []string{"PIN:", "PIN:", strings.Repeat("k", 37), strings.Repeat("k", 38), strings.Repeat("k", 39), strings.Repeat("k", 86)}[r.Intn(6)]
	case c < 13:
		m.Kind = "reqpublic"
		m.Text = []string{"slot?", "slot?", strings.Repeat("s", 38), strings.Repeat("s", 86), strings.Repeat("s", 134)}[r.Intn(5)]
	case c < 15:
		m.Kind = "confirm"
		m.Text = "proceed?"
		yes, no := ref.B64([]byte("Yes")), ref.B64([]byte("No"))
		switch r.Intn(6) {
		case 0:
			m.Args = []string{yes}
		case 1, 2:
			m.Args = []string{yes, no}
		case 3:
			m.Args = nil
		case 4:
			m.Args = []string{yes, no, "third"}
		default:
			m.Args = []string{"not base64!", no}
		}
	case c < 17:
		m.Kind = "unknown"
		// (also names that only resemble a defined command: they are unknown all the same)
		m.Args = []string{[]string{"frobnicate", "extension-foo", "ok", "fail", "wrap-file-key", "msg-debug", "request-pin", "request", "confirm-x", "request-secret-2", "Msg", "recipient-stanza-v2", "labels2", "file-keys", "errors"}[r.Intn(15)]}
		if r.Chance(1, 3) {
			m.Args = append(m.Args, ref.B64([]byte("Yes"))) // what a confirm would carry
		}
		m.BodyLen = r.Pick(0, 0, 10, 48)
	case c < 18:
		// the other machine's own command: unknown here
		if own == "rs" {
			m.Kind = "filekey"
			m.Args = []string{"0"}
			m.BodyLen = 16
		} else {
			m.Kind = []string{"rs", "labels"}[r.Intn(2)]
			m.Args = []string{"0", "X25519", "abc"}
		}
	case c < 19:
		m.Kind = "raw"
		m.Raw = []string{
			"recipient-stanza 0 X25519 abc\n\n",                    // no arrow
			"-> msg\n" + strings.Repeat("A", 68) + "\n\n",          // long body line
			"-> msg\n" + strings.Repeat("A", 64) + "\n-> done\n\n", // missing short line
			"-> msg\nQR\n",       // non-canonical base64
			"-> done\r\n\n",      // CR
			"-> msg\nQQ==\n",     // padding
			"->  done\n\n",       // empty argument
			"-> msg \n\n",        // trailing space
			"-> m\xc3\xa9sg\n\n", // non-ASCII
			"\n",                 // empty line
		}[r.Intn(10)]
	default:
		m.Kind = "done"
	}
	if r.Chance(1, 12) && (m.Kind == "unknown" || m.Kind == "labels" || (m.Kind == "rs" && len(m.Args) >= 3)) {
		// a first line longer than one 4096-byte buffer: arguments have no length bound in the format
		m.Args = append(m.Args, strings.Repeat("z", r.Pick(4000, 4090, 4200, 5000, 70000)))
	}
	return m
}

func (Engine) Generate(r *core.RNG, tier string, idx uint64) interface{} {
	p := &Plan{DeathAt: -1}
	p.Machine = []string{"recipient", "identity", "identity", "identity-as-recipient", "identity-in-decrypt"}[r.Intn(5)]
	p.Name = []string{"sim", "yubi-key", "a.b_c+d", "x"}[r.Intn(4)]
	p.NStanzas = r.Range(1, 3)
	if r.Chance(1, 3) {
		p.NStanzas = r.Range(2, 4)
		p.Shape = r.Intn(256)
	}
	p.PlainWrap = r.Chance(1, 4)
	p.UI = UISpec{Display: []string{"nil", "err", "ok"}[r.Intn(3)], Request: []string{"nil", "err", "val"}[r.Intn(3)],
		Confirm: []string{"nil", "err", "yes", "no"}[r.Intn(4)], WaitTimer: r.Bool()}
	mach := p.Machine
	if mach == "identity-as-recipient" {
		mach = "recipient"
	}
	if mach == "identity-in-decrypt" {
		mach = "identity"
	}
	n := r.Range(0, 7)
	for i := 0; i < n; i++ {
		m := genMsg(r, mach)
		p.Msgs = append(p.Msgs, m)
		if m.Kind == "done" && r.Chance(2, 3) {
			break
		}
	}
	if r.Chance(1, 4) {
		// death
		switch r.Intn(5) {
		case 0:
			p.DeadAtStart = true
			p.DeathAt = 0
		default:
			p.DeathAt = r.Intn(len(p.Msgs) + 1)
			if p.DeathAt < len(p.Msgs) && r.Bool() {
				p.DeathCut = 1 + r.Intn(30)
			}
		}
	} else if len(p.Msgs) == 0 || p.Msgs[len(p.Msgs)-1].Kind != "done" {
		p.Msgs = append(p.Msgs, PMsg{Kind: "done", Frag: "whole"})
	}
	if r.Chance(1, 5) {
		p.Coalesce = 1 + r.Intn(2)
	}
	return p
}

func (Engine) Shrinks(plan interface{}) []interface{} {
	p := plan.(*Plan)
	var out []interface{}
	cp := func() *Plan { q := *p; q.Msgs = append([]PMsg(nil), p.Msgs...); return &q }
	for i := range p.Msgs {
		if len(p.Msgs) > 1 {
			q := cp()
			q.Msgs = append(q.Msgs[:i:i], q.Msgs[i+1:]...)
			if q.DeathAt > i {
				q.DeathAt--
			}
			out = append(out, q)
		}
	}
	for i, m := range p.Msgs {
		if m.StallMs != 0 {
			q := cp()
			q.Msgs[i].StallMs = 0
			out = append(out, q)
		}
		if m.Frag != "whole" {
			q := cp()
			q.Msgs[i].Frag = "whole"
			out = append(out, q)
		}
	}
	if p.UI.WaitTimer {
		q := cp()
		q.UI.WaitTimer = false
		out = append(out, q)
	}
	if p.Coalesce != 0 {
		q := cp()
		q.Coalesce = 0
		out = append(out, q)
	}
	if p.Shape != 0 {
		q := cp()
		q.Shape = 0
		out = append(out, q)
	}
	if p.NStanzas > 1 {
		q := cp()
		q.NStanzas = 1
		out = append(out, q)
	}
	return out
}

// ---------- peer bytes ----------

func msgBytes(m PMsg) []byte {
	if m.Kind == "raw" {
		return []byte(m.Raw)
	}
	st := &ref.Stanza{Args: m.Args}
	switch m.Kind {
	case "rs":
		st.Type = "recipient-stanza"
		st.Body = core.Pattern(uint64(m.BodyLen)+3, m.BodyLen)
	case "filekey":
		st.Type = "file-key"
		st.Body = core.Pattern(uint64(m.BodyLen)+5, m.BodyLen)
	case "labels":
		st.Type = "labels"
	case "error":
		st.Type = "error"
		st.Body = []byte(m.Text)
	case "msg":
		st.Type = "msg"
		st.Body = []byte(m.Text)
	case "reqsecret":
		st.Type = "request-secret"
		st.Body = []byte(m.Text)
	case "reqpublic":
		st.Type = "request-public"
		st.Body = []byte(m.Text)
	case "confirm":
		st.Type = "confirm"
		st.Body = []byte(m.Text)
	case "unknown":
		st.Type = m.Args[0]
		st.Args = m.Args[1:]
		st.Body = core.Pattern(9, m.BodyLen)
	case "done":
		st.Type = "done"
		st.Args = nil
	}
	return ref.MarshalStanza(st)
}

type segment struct {
	data  []byte
	stall time.Duration
	last  bool // peer dies right after delivering this segment
}

func fragments(b []byte, mode string) [][]byte {
	switch mode {
	case "byte":
		var out [][]byte
		for i := range b {
			out = append(out, b[i:i+1])
		}
		return out
	case "line":
		return bytes.SplitAfter(b, []byte("\n"))
	}
	return [][]byte{b}
}

// transport is the simulated pair of pipes; the peer is reactive: it acts only
// inside the client's Read and Write calls (one thread of control).
type transport struct {
	segs      []segment
	si        int
	off       int
	dead      bool
	wrote     bytes.Buffer
	calls     int
	afterLast int
	closed    bool
	log       *core.Log
	simTime   time.Duration
	// halfOpen: the peer that stopped sending keeps its input open (it closed its output only): client writes
	// still land in the pipe
	halfOpen bool
}

var errLiveness = errors.New("sim: liveness budget exhausted")

func (t *transport) tick() {
	t.calls++
	if t.si >= len(t.segs) {
		t.afterLast++
		if t.afterLast > 10000 {
			panic(errLiveness)
		}
	}
}

func (t *transport) Write(p []byte) (int, error) {
	t.tick()
	if (t.dead && !t.halfOpen) || t.closed {
		t.log.Add("client write %d bytes -> broken pipe", len(p))
		return 0, io.ErrClosedPipe
	}
	t.wrote.Write(p)
	return len(p), nil
}

func (t *transport) Read(p []byte) (int, error) {
	t.tick()
	if t.closed {
		return 0, io.ErrClosedPipe
	}
	for t.si < len(t.segs) && len(t.segs[t.si].data) == t.off {
		if t.segs[t.si].last {
			t.dead = true
		}
		t.si++
		t.off = 0
	}
	if t.si >= len(t.segs) {
		t.dead = true
		t.log.Add("client read -> EOF")
		return 0, io.EOF
	}
	s := &t.segs[t.si]
	if t.off == 0 && s.stall > 0 {
		time.Sleep(s.stall) // fake clock inside the bubble
		t.simTime += s.stall
		s.stall = 0
	}
	n := copy(p, s.data[t.off:])
	t.off += n
	if t.off == len(s.data) && s.last {
		t.dead = true
	}
	return n, nil
}

// ---------- the model ----------

type expect struct {
	replies   []string // marshalled reply stanzas expected, in order
	final     string   // "stanzas" | "filekey" | "incorrect" | "error"
	errText   string   // for error messages: must be contained in the final error
	stanzas   []*ref.Stanza
	labels    []string
	hasLabel  bool
	fileKey   []byte
	lenient   bool // statement prescribes nothing from here: only termination + error-or-valid result
	noSuccess bool // ... except that the conversation can no longer end in success (a file-key message was repeated)
	errAcked  bool
	processed int // number of messages the client is expected to consume
}

func reply(t string, args []string, body []byte) string {
	return string(ref.MarshalStanza(&ref.Stanza{Type: t, Args: args, Body: body}))
}

func runModel(p *Plan, c *core.Ctx) *expect {
	e := &expect{}
	recipient := p.Machine != "identity" && p.Machine != "identity-in-decrypt"
	n := len(p.Msgs)
	if p.DeathAt >= 0 && p.DeathAt < n {
		n = p.DeathAt
	}
	abort := func() *expect { e.final = "error"; return e }
	for i := 0; i < n; i++ {
		m := p.Msgs[i]
		e.processed = i + 1
		kind := m.Kind
		// a command of the other machine is an unknown command here
		if (kind == "filekey" && recipient) || ((kind == "rs" || kind == "labels") && !recipient) {
			kind = "other"
		}
		switch kind {
		case "raw":
			c.Stats.Inc("fault.malformed_framing")
			return abort()
		case "rs":
			if len(m.Args) < 2 {
				c.Stats.Inc("fault.bad_index")
				return abort()
			}
			if m.Args[0] != "0" {
				c.Stats.Inc("fault.bad_index")
				return abort()
			}
			e.stanzas = append(e.stanzas, &ref.Stanza{Type: m.Args[1], Args: m.Args[2:], Body: core.Pattern(uint64(m.BodyLen)+3, m.BodyLen)})
			e.replies = append(e.replies, reply("ok", nil, nil))
		case "labels":
			if e.hasLabel {
				c.Stats.Inc("fault.repeated_labels")
				return abort()
			}
			e.hasLabel = true
			e.labels = m.Args
			e.replies = append(e.replies, reply("ok", nil, nil))
		case "filekey":
			if len(m.Args) != 1 || m.Args[0] != "0" {
				c.Stats.Inc("fault.bad_index")
				return abort()
			}
			if m.BodyLen == 0 {
				// a file-key message without a key: whether it is refused or acknowledged is not prescribed. But it
				// IS a file-key message: another one after it is a repetition, which is an error either way.
				e.lenient = true
				if e.fileKey != nil {
					e.noSuccess = true
				}
				for _, later := range p.Msgs[i+1 : n] {
					if later.Kind == "filekey" && len(later.Args) == 1 && later.Args[0] == "0" {
						e.noSuccess = true
					}
					if later.Kind == "done" || later.Kind == "error" || later.Kind == "raw" {
						break
					}
				}
				return e
			}
			if e.fileKey != nil {
				c.Stats.Inc("fault.duplicate_file_key")
				return abort()
			}
			e.fileKey = core.Pattern(uint64(m.BodyLen)+5, m.BodyLen)
			e.replies = append(e.replies, reply("ok", nil, nil))
		case "error":
			c.Stats.Inc("fault.error_message")
			e.replies = append(e.replies, reply("ok", nil, nil))
			e.errText = m.Text
			e.errAcked = true
			return abort()
		case "done":
			if recipient {
				if len(e.stanzas) == 0 {
					c.Stats.Inc("probe.zero_stanzas")
					return abort()
				}
				e.final = "stanzas"
			} else if e.fileKey == nil {
				e.final = "incorrect"
			} else {
				e.final = "filekey"
			}
			return e
		case "msg":
			if p.UI.Display == "ok" {
				e.replies = append(e.replies, reply("ok", nil, nil))
			} else {
				c.Stats.Inc("fault.ui_callback_missing_or_failing")
				e.replies = append(e.replies, reply("fail", nil, nil))
			}
		case "reqsecret", "reqpublic":
			if p.UI.Request == "val" {
				e.replies = append(e.replies, reply("ok", nil, []byte("answer to "+m.Text)))
				c.Stats.Inc("probe.prompt_answered")
			} else {
				c.Stats.Inc("fault.ui_callback_missing_or_failing")
				e.replies = append(e.replies, reply("fail", nil, nil))
			}
		case "confirm":
			okArgs := len(m.Args) == 1 || len(m.Args) == 2
			if okArgs {
				for _, a := range m.Args {
					if _, err := ref.UnB64(a); err != nil {
						okArgs = false
					}
				}
			}
			if !okArgs {
				e.lenient = true
				return e
			}
			switch p.UI.Confirm {
			case "yes":
				e.replies = append(e.replies, reply("ok", []string{"yes"}, nil))
				c.Stats.Inc("probe.confirm_answered")
			case "no":
				e.replies = append(e.replies, reply("ok", []string{"no"}, nil))
				c.Stats.Inc("probe.confirm_answered")
			default:
				c.Stats.Inc("fault.ui_callback_missing_or_failing")
				e.replies = append(e.replies, reply("fail", nil, nil))
			}
		case "unknown", "other":
			c.Stats.Inc("fault.unknown_command")
			e.replies = append(e.replies, reply("unsupported", nil, nil))
		}
	}
	// ran out of messages without done: the peer died (or will die mid-message)
	return abort()
}

// ---------- execution ----------

func (en Engine) Execute(plan interface{}, c *core.Ctx) *core.Verdict {
	p := plan.(*Plan)
	if T == nil {
		return core.Fail("harness", "plug.T not set (plugsim must be a test binary)")
	}
	var v *core.Verdict
	func() {
		defer func() {
			if r := recover(); r != nil {
				v = core.Fail("C16.bubble", "panic escaping the bubble: %v", r)
			}
		}()
		synctest.Test(T, func(t *testing.T) {
			v = en.converse(p, c)
		})
	}()
	return v
}

func (en Engine) converse(p0 *Plan, c *core.Ctx) (verdict *core.Verdict) {
	// normalise: a cut at or beyond the end of the message delivers it whole
	pp := *p0
	p := &pp
	if p.DeathAt >= 0 && p.DeathAt < len(p.Msgs) && p.DeathCut >= len(msgBytes(p.Msgs[p.DeathAt])) && !p.DeadAtStart {
		p.DeathAt++
		p.DeathCut = 0
	}
	tr := &transport{log: c.Log}
	death := p.DeathAt >= 0
	// build segments
	for i, m := range p.Msgs {
		if death && i > p.DeathAt {
			break
		}
		b := msgBytes(m)
		cut := false
		if death && i == p.DeathAt {
			if p.DeathCut <= 0 || p.DeadAtStart {
				break
			}
			if p.DeathCut < len(b) {
				b = b[:p.DeathCut]
			}
			cut = true
		}
		fr := fragments(b, m.Frag)
		for j, f := range fr {
			if len(f) == 0 {
				continue
			}
			s := segment{data: f}
			if j == 0 {
				s.stall = time.Duration(m.StallMs) * time.Millisecond
			}
			tr.segs = append(tr.segs, s)
		}
		switch m.Frag {
		case "byte":
			c.Stats.Inc("probe.fragment_per_byte")
		case "line":
			c.Stats.Inc("probe.fragment_per_line")
		}
		if m.StallMs > 0 {
			c.Stats.Inc("fault.stall")
		}
		if cut {
			c.Stats.Inc("fault.death_mid_message")
		}
	}
	if death {
		if p.DeadAtStart {
			tr.dead = true
			tr.segs = nil
			c.Stats.Inc("fault.death_at_start")
		} else if len(tr.segs) > 0 {
			tr.segs[len(tr.segs)-1].last = true
			if p.DeathCut <= 0 {
				c.Stats.Inc("fault.death_between_messages")
			}
		} else {
			// dies before sending anything, but after reading the client's phase 1
			c.Stats.Inc("fault.death_between_messages")
		}
	}
	if p.Coalesce > 0 && len(tr.segs) > 1 {
		// a peer that does not wait for the replies: what it wrote sits in the pipe and one read returns several
		// messages (the order of messages and the replies owed are unchanged)
		var merged []segment
		for i, s := range tr.segs {
			if i > 0 && (p.Coalesce == 1 || i%2 == 1) {
				m := &merged[len(merged)-1]
				m.data = append(append([]byte(nil), m.data...), s.data...)
				m.last = s.last
				continue
			}
			merged = append(merged, s)
		}
		tr.segs = merged
		// (the replies to the earlier messages of a merged read are written after the peer has sent its last byte:
		// they must not fail for that reason alone, or every such conversation would end in a write error)
		tr.halfOpen = true
		c.Stats.Inc("probe.coalesced_delivery")
	}
	exp := runModel(p, c)

	// hook
	var hookName, hookProto string
	hookCalls := 0
	plugin.VerifTransport = func(name, protocol string) (io.Reader, io.Writer, func()) {
		hookCalls++
		hookName, hookProto = name, protocol
		return tr, tr, func() { tr.closed = true }
	}
	defer func() { plugin.VerifTransport = nil }()

	var timerFired int32
	ui := &plugin.ClientUI{}
	switch p.UI.Display {
	case "ok":
		ui.DisplayMessage = func(name, msg string) error { return nil }
	case "err":
		ui.DisplayMessage = func(name, msg string) error { return errors.New("sim: cannot display") }
	}
	switch p.UI.Request {
	case "val":
		ui.RequestValue = func(name, prompt string, secret bool) (string, error) { return "answer to " + prompt, nil }
	case "err":
		// a failing prompt may still hand back what was typed so far: none of it may reach the plugin
		ui.RequestValue = func(name, prompt string, secret bool) (string, error) { return "partial", errors.New("sim: no tty") }
	}
	switch p.UI.Confirm {
	case "yes", "no":
		ui.Confirm = func(name, prompt, yes, no string) (bool, error) { return p.UI.Confirm == "yes", nil }
	case "err":
		ui.Confirm = func(name, prompt, yes, no string) (bool, error) { return true, errors.New("sim: no tty") }
	}
	if p.UI.WaitTimer {
		ui.WaitTimer = func(name string) { atomic.AddInt32(&timerFired, 1) }
	}

	fileKey := core.Pattern(77, 16)
	data := core.Pattern(5, 20)
	var inStanzas []*age.Stanza
	for i := 0; i < p.NStanzas; i++ {
		st := &age.Stanza{Type: fmt.Sprintf("t%d", i), Args: []string{"arg", fmt.Sprint(i)}, Body: core.Pattern(uint64(i)+40, []int{0, 32, 48, 100}[i%4])}
		switch (p.Shape >> (2 * uint(i))) & 3 {
		case 1:
			st.Args = nil
		case 2:
			st.Args = []string{fmt.Sprintf("only%d", i)}
		case 3:
			st.Args = []string{"a", "b", "c", "d", fmt.Sprint(i)}
		}
		inStanzas = append(inStanzas, st)
	}
	recEnc := ref.Bech32Encode("age1"+p.Name, data)
	idEnc := strings.ToUpper(ref.Bech32Encode("AGE-PLUGIN-"+strings.ToUpper(p.Name)+"-", data))

	var gotStanzas []*age.Stanza
	var gotLabels []string
	var gotKey []byte
	var gotErr error
	decOK, decSecond := false, 0
	live := true
	func() {
		defer func() {
			if r := recover(); r != nil {
				if r == errLiveness {
					live = false
					return
				}
				panic(r)
			}
		}()
		switch p.Machine {
		case "recipient":
			r, err := plugin.NewRecipient(recEnc, ui)
			if err != nil {
				gotErr = fmt.Errorf("harness: NewRecipient: %v", err)
				return
			}
			if p.PlainWrap {
				gotStanzas, gotErr = r.Wrap(fileKey)
				c.Stats.Inc("probe.entered_through_plain_wrap")
			} else {
				gotStanzas, gotLabels, gotErr = r.WrapWithLabels(fileKey)
			}
		case "identity-as-recipient":
			i, err := plugin.NewIdentity(idEnc, ui)
			if err != nil {
				gotErr = fmt.Errorf("harness: NewIdentity: %v", err)
				return
			}
			if p.PlainWrap {
				gotStanzas, gotErr = i.Recipient().Wrap(fileKey)
				c.Stats.Inc("probe.entered_through_plain_wrap")
			} else {
				gotStanzas, gotLabels, gotErr = i.Recipient().WrapWithLabels(fileKey)
			}
		case "identity-in-decrypt":
			// the plugin identity is the first of two identities handed to age.Decrypt; the file is
			// addressed to the second (a native X25519 key) and its file key is the one the script sends
			i, err := plugin.NewIdentity(idEnc, ui)
			if err != nil {
				gotErr = fmt.Errorf("harness: NewIdentity: %v", err)
				return
			}
			second := &countingIdentity{secret: core.Pattern(91, 32)}
			rf := &ref.File{FileKey: core.Pattern(16+5, 16), Nonce: core.Pattern(8, 16), Plain: []byte("plaintext for the plugin run")}
			rf.Stanzas = []*ref.Stanza{ref.WrapX25519(rf.FileKey, core.Pattern(92, 32), ref.X25519Public(second.secret))}
			inStanzas = []*age.Stanza{{Type: rf.Stanzas[0].Type, Args: rf.Stanzas[0].Args, Body: rf.Stanzas[0].Body}}
			rd, err := age.Decrypt(bytes.NewReader(rf.Encode()), i, second)
			decSecond = second.calls
			if err != nil {
				gotErr = err
				return
			}
			pt, err := io.ReadAll(rd)
			if err != nil || !bytes.Equal(pt, rf.Plain) {
				gotErr = fmt.Errorf("harness-free: payload: %v", err)
				return
			}
			decOK = true
		default:
			i, err := plugin.NewIdentity(idEnc, ui)
			if err != nil {
				gotErr = fmt.Errorf("harness: NewIdentity: %v", err)
				return
			}
			gotKey, gotErr = i.Unwrap(inStanzas)
		}
	}()
	synctest.Wait()
	c.Stats.Add("sim_time_ms", int64(tr.simTime/time.Millisecond))
	if n := atomic.LoadInt32(&timerFired); n > 0 {
		c.Stats.Add("probe.wait_timer_fired", int64(n))
	}
	skeleton := fmt.Sprintf("%s|%+v|%d|%d|%v|%d|", p.Machine, p.UI, p.DeathAt, p.DeathCut, p.DeadAtStart, p.Shape)
	for _, m := range p.Msgs {
		args := append([]string(nil), m.Args...)
		for i, a := range args {
			if len(a) > 100 {
				args[i] = fmt.Sprintf("%s*%d", a[:1], len(a))
				c.Stats.Inc("probe.first_line_beyond_4096")
			}
		}
		skeleton += fmt.Sprintf("%s%v/%s/%d,", m.Kind, args, m.Frag, m.StallMs)
	}
	c.Stats.Eval(skeleton, len(p.Msgs) > 1 || death)
	// (the number of bytes the client wrote is not logged: its grease stanza comes from math/rand's auto-seeded source)
	c.Log.Add("machine=%s msgs=%d death=%d/%d -> err=%v stanzas=%d key=%d labels=%v; model final=%s lenient=%v", p.Machine, len(p.Msgs), p.DeathAt, p.DeathCut, gotErr, len(gotStanzas), len(gotKey), gotLabels, exp.final, exp.lenient)

	if !live {
		return core.Fail("C16.liveness", "client made more than 10000 transport calls after the peer's last action (spinning instead of failing)")
	}
	if gotErr != nil && strings.HasPrefix(gotErr.Error(), "harness:") {
		return core.Fail("harness", "%v", gotErr)
	}
	// free invariant (C17 first half): the name that reached the transport is allow-listed
	if hookCalls > 0 {
		c.Stats.Inc("probe.name_checked")
		if hookName != p.Name || strings.ContainsAny(hookName, "/\\") {
			return core.Fail("C16.name", "plugin started under name %q for encoding of %q", hookName, p.Name)
		}
		wantProto := "recipient-v1"
		if p.Machine == "identity" || p.Machine == "identity-in-decrypt" {
			wantProto = "identity-v1"
		}
		if hookProto != wantProto {
			return core.Fail("C16.protocol_flag", "state machine %q announced as %q", p.Machine, hookProto)
		}
	}
	if !tr.closed && hookCalls > 0 {
		return core.Fail("C16.not_closed", "client returned without closing the plugin connection")
	}

	// ---- phase 1 transcript ----
	wrote := tr.wrote.Bytes()
	sts, rest, perr := parseStanzas(wrote)
	if !p.DeadAtStart {
		if perr != nil || len(rest) != 0 {
			return core.Fail("C16.transcript_malformed", "what the client sent is not a sequence of well-formed stanzas: %v (tail %q)", perr, clipB(rest))
		}
		idx := 0
		next := func() *ref.Stanza {
			for idx < len(sts) && strings.HasPrefix(sts[idx].Type, "grease-") {
				idx++
			}
			if idx < len(sts) {
				idx++
				return sts[idx-1]
			}
			return nil
		}
		bad := func(what string) *core.Verdict {
			return core.Fail("C16.phase1", "phase 1 of the %s machine is not complete and well formed: %s; client sent %q", p.Machine, what, clipB(wrote))
		}
		s := next()
		switch p.Machine {
		case "recipient":
			if s == nil || s.Type != "add-recipient" || len(s.Args) != 1 || s.Args[0] != recEnc || len(s.Body) != 0 {
				return bad("first stanza must be add-recipient <recipient string>")
			}
		default:
			if s == nil || s.Type != "add-identity" || len(s.Args) != 1 || s.Args[0] != idEnc || len(s.Body) != 0 {
				return bad("first stanza must be add-identity <identity string>")
			}
		}
		if p.Machine == "identity" || p.Machine == "identity-in-decrypt" {
			for i, in := range inStanzas {
				s = next()
				want := append([]string{"0", in.Type}, in.Args...)
				if s == nil || s.Type != "recipient-stanza" || strings.Join(s.Args, " ") != strings.Join(want, " ") || !bytes.Equal(s.Body, in.Body) {
					return bad(fmt.Sprintf("stanza %d of the file must be forwarded as recipient-stanza 0 <type> <args> with its body", i))
				}
			}
		} else {
			s = next()
			if s == nil || s.Type != "wrap-file-key" || len(s.Args) != 0 || !bytes.Equal(s.Body, fileKey) {
				return bad("wrap-file-key with the 16-byte file key as body expected")
			}
			s = next()
			if s == nil || s.Type != "extension-labels" || len(s.Args) != 0 || len(s.Body) != 0 {
				return bad("extension-labels expected")
			}
		}
		s = next()
		if s == nil || s.Type != "done" || len(s.Args) != 0 || len(s.Body) != 0 {
			return bad("done expected at the end of phase 1")
		}
		// ---- replies ----
		var got []string
		for _, r := range sts[idx:] {
			got = append(got, string(ref.MarshalStanza(r)))
		}
		if !exp.lenient && !death {
			if strings.Join(got, "") != strings.Join(exp.replies, "") {
				return core.Fail("C16.replies", "client replies %q, the protocol prescribes %q for script %s", strings.Join(got, ""), strings.Join(exp.replies, ""), skeleton)
			}
		} else {
			// replies must at least be a prefix of / start with what is prescribed so far
			g, w := strings.Join(got, ""), strings.Join(exp.replies, "")
			if death && !exp.lenient && !strings.HasPrefix(w, g) {
				return core.Fail("C16.replies", "client replies %q are not a prefix of the prescribed %q (peer died)", g, w)
			}
			if exp.lenient && !death && !strings.HasPrefix(g, w) {
				return core.Fail("C16.replies", "client replies %q do not start with the prescribed %q", g, w)
			}
		}
	}

	// ---- final result ----
	if exp.lenient && exp.noSuccess && gotErr == nil && (len(gotKey) > 0 || decOK) {
		return core.Fail("C16.repeated_file_key_accepted", "the plugin sent a file-key message without a key and then another file-key message: a repeated file key message is an error, but the client reported success (key of %d bytes); machine %s, %d messages", len(gotKey), p.Machine, len(p.Msgs))
	}
	if exp.lenient {
		c.Stats.Inc("probe.lenient_tail")
		return nil
	}
	if death {
		// a peer that stops mid-conversation is an error (unless the conversation was already complete)
		if exp.final == "error" || exp.final == "" {
			if gotErr == nil {
				return core.Fail("C16.death_not_error", "the peer died mid-conversation (before message %d, cut %d) but the client reported success", p.DeathAt, p.DeathCut)
			}
			if p.Machine == "identity-in-decrypt" && decSecond != 0 {
				return core.Fail("C16.death_as_incorrect_identity", "the peer died mid-conversation inside age.Decrypt but the following identity was consulted (%d time(s)) as if the plugin had merely not matched", decSecond)
			}
			if errors.Is(gotErr, age.ErrIncorrectIdentity) && !exp.errAcked {
				return core.Fail("C16.death_as_incorrect_identity", "the peer died mid-conversation but the client reported an incorrect identity (other identities would be tried as if nothing happened): %v", gotErr)
			}
			return nil
		}
	}
	if p.Machine == "identity-in-decrypt" {
		c.Stats.Inc("probe.inside_age_decrypt")
		switch exp.final {
		case "incorrect":
			// no file key from the plugin: the next identity must be tried and opens the file
			if !decOK || decSecond != 1 {
				return core.Fail("C16.next_identity_not_tried", "plugin finished without a file key inside age.Decrypt: the following identity must be consulted and decrypt the file; got ok=%v, second identity consulted %d time(s), err=%v", decOK, decSecond, gotErr)
			}
		case "filekey":
			if len(exp.fileKey) == 16 {
				if !decOK || decSecond != 0 {
					return core.Fail("C16.decrypt_with_plugin_key", "plugin supplied the file key: Decrypt must succeed without consulting further identities; ok=%v second=%d err=%v", decOK, decSecond, gotErr)
				}
			} else if decOK {
				return core.Fail("C16.decrypt_with_plugin_key", "plugin supplied a %d-byte key that cannot be the file key, yet Decrypt succeeded", len(exp.fileKey))
			}
		case "error":
			if decOK || gotErr == nil {
				return core.Fail("C16.error_expected", "protocol failure inside age.Decrypt but the file was decrypted (script %s)", skeleton)
			}
			if decSecond != 0 {
				return core.Fail("C16.failure_not_fatal", "a plugin protocol failure must abort Decrypt; the following identity was consulted %d time(s)", decSecond)
			}
			if exp.errAcked && !strings.Contains(gotErr.Error(), exp.errText) {
				return core.Fail("C16.error_text", "plugin error %q not in the returned error %q", exp.errText, gotErr)
			}
		}
		return nil
	}
	switch exp.final {
	case "stanzas":
		if gotErr != nil {
			return core.Fail("C16.result", "recipient conversation complete (%d stanzas, done) but Wrap failed: %v", len(exp.stanzas), gotErr)
		}
		if len(gotStanzas) != len(exp.stanzas) {
			return core.Fail("C16.result", "Wrap returned %d stanzas, the plugin sent %d", len(gotStanzas), len(exp.stanzas))
		}
		for i, s := range exp.stanzas {
			g := gotStanzas[i]
			if g.Type != s.Type || strings.Join(g.Args, " ") != strings.Join(s.Args, " ") || !bytes.Equal(g.Body, s.Body) {
				return core.Fail("C16.result", "stanza %d returned by Wrap differs from what the plugin sent", i)
			}
		}
		if !p.PlainWrap && strings.Join(gotLabels, ",") != strings.Join(exp.labels, ",") {
			return core.Fail("C16.labels", "labels returned %v, plugin sent %v", gotLabels, exp.labels)
		}
		c.Stats.Inc("probe.success_recipient")
	case "filekey":
		if gotErr != nil || !bytes.Equal(gotKey, exp.fileKey) {
			return core.Fail("C16.result", "identity conversation complete with a file key but Unwrap returned (%d bytes, %v)", len(gotKey), gotErr)
		}
		c.Stats.Inc("probe.success_identity")
	case "incorrect":
		if !errors.Is(gotErr, age.ErrIncorrectIdentity) {
			return core.Fail("C16.incorrect_identity", "plugin finished without a file key: Unwrap must report ErrIncorrectIdentity so that other identities are tried, got (%d bytes, %v)", len(gotKey), gotErr)
		}
		c.Stats.Inc("probe.incorrect_identity")
	case "error":
		if gotErr == nil {
			return core.Fail("C16.error_expected", "the protocol prescribes a failure for script %s but the client reported success", skeleton)
		}
		if errors.Is(gotErr, age.ErrIncorrectIdentity) {
			return core.Fail("C16.error_as_incorrect_identity", "a protocol failure was reported as ErrIncorrectIdentity: %v", gotErr)
		}
		if exp.errAcked {
			if !strings.Contains(gotErr.Error(), exp.errText) {
				return core.Fail("C16.error_text", "plugin error %q not in the returned error %q", exp.errText, gotErr)
			}
			c.Stats.Inc("probe.error_text_propagated")
		}
	}
	return nil
}

func clipB(b []byte) string {
	if len(b) > 200 {
		return string(b[:120]) + "..." + string(b[len(b)-60:])
	}
	return string(b)
}

// parseStanzas parses a concatenation of stanzas strictly (reference grammar).
func parseStanzas(b []byte) ([]*ref.Stanza, []byte, error) {
	var out []*ref.Stanza
	for len(b) > 0 {
		// reuse the header parser: intro + stanza + footer with a dummy MAC is overkill; parse by hand
		i := bytes.IndexByte(b, '\n')
		if i < 0 {
			return out, b, errors.New("unterminated line")
		}
		parts := strings.Split(string(b[:i]), " ")
		if parts[0] != "->" || len(parts) < 2 {
			return out, b, fmt.Errorf("bad stanza line %q", b[:i])
		}
		for _, a := range parts[1:] {
			if len(a) == 0 {
				return out, b, fmt.Errorf("empty argument in %q", b[:i])
			}
			for j := 0; j < len(a); j++ {
				if a[j] < 33 || a[j] > 126 {
					return out, b, fmt.Errorf("bad character in %q", b[:i])
				}
			}
		}
		s := &ref.Stanza{Type: parts[1], Args: append([]string{}, parts[2:]...)}
		rest := b[i+1:]
		for {
			j := bytes.IndexByte(rest, '\n')
			if j < 0 {
				return out, b, errors.New("unterminated body")
			}
			d, err := ref.UnB64(string(rest[:j]))
			if err != nil || len(d) > 48 {
				return out, b, fmt.Errorf("bad body line %q", rest[:j])
			}
			s.Body = append(s.Body, d...)
			rest = rest[j+1:]
			if len(d) < 48 {
				break
			}
		}
		out = append(out, s)
		b = rest
	}
	return out, nil, nil
}

// countingIdentity is a native X25519 identity (reference implementation of the unwrap) that counts its calls.
type countingIdentity struct {
	secret []byte
	calls  int
}

func (ci *countingIdentity) Unwrap(stanzas []*age.Stanza) ([]byte, error) {
	ci.calls++
	for _, s := range stanzas {
		fk, err := ref.UnwrapX25519(&ref.Stanza{Type: s.Type, Args: s.Args, Body: s.Body}, ci.secret)
		if err == ref.ErrNotMine {
			continue
		}
		if err != nil {
			return nil, err
		}
		return fk, nil
	}
	return nil, age.ErrIncorrectIdentity
}
