// Package lib has the workload helpers shared by the engines: describing a
// file (recipients, plaintext, tape), producing it through the real library
// under a tape, reading it back through the real library under a schedule.
package lib

import (
	"bytes"
	"errors"
	"fmt"
	"io"

	"filippo.io/age"
	"filippo.io/age/armor"

	"verif/sim/core"
	"verif/sim/ref"
	"verif/sim/seam"
	"verif/sim/world"
)

// Recip is one entry of a recipient list.
type Recip struct {
	Key    *world.Key `json:"key,omitempty"`
	Grease *Grease    `json:"grease,omitempty"`
}

type Grease struct {
	N    int  `json:"n"`
	Body int  `json:"body"`
	Tag  int  `json:"tag"`
	Arg  int  `json:"arg,omitempty"`  // length of an extra (long) argument on the stanza line
	Bare bool `json:"bare,omitempty"` // the stanzas carry NO arguments at all (only a type)
	NArg int  `json:"narg,omitempty"` // further short arguments on the stanza line (stanzas with 6..22 arguments)
	Dash int  `json:"dash,omitempty"` // the footer marker "---" inside the stanza line: 1 in an extra argument ("slot---7"), 2 in the type, 3 as an argument of its own
	App  int  `json:"app,omitempty"`  // the recipient appends this many bytes to the file-key slice it was handed (msg := append(fileKey, ctx...)): legal, and harmless while the slice has no spare capacity
}

// Recipient builds the sim-owned recipient the description stands for.
func (g *Grease) Recipient() *world.GreaseRecipient {
	return &world.GreaseRecipient{N: g.N, BodyLen: g.Body, Tag: g.Tag, ArgLen: g.Arg, Append: g.App, NArgs: g.NArg, Bare: g.Bare, Dash: g.Dash}
}

func (r Recip) String() string {
	if r.Key != nil {
		return r.Key.String()
	}
	if r.Grease.Bare {
		return fmt.Sprintf("g%dx%dbare", r.Grease.N, r.Grease.Body)
	}
	if r.Grease.Dash > 0 {
		return fmt.Sprintf("g%dx%da%dn%ddash%d", r.Grease.N, r.Grease.Body, r.Grease.Arg, r.Grease.NArg, r.Grease.Dash)
	}
	if r.Grease.Arg > 0 || r.Grease.NArg > 0 {
		return fmt.Sprintf("g%dx%da%dn%d", r.Grease.N, r.Grease.Body, r.Grease.Arg, r.Grease.NArg)
	}
	return fmt.Sprintf("g%dx%d", r.Grease.N, r.Grease.Body)
}

type FileSpec struct {
	Recips []Recip `json:"recips"`
	PSeed  uint64  `json:"pseed"`
	PLen   int     `json:"plen"`
	Tape   uint64  `json:"tape"`
	Armor  bool    `json:"armor"`
	ZTail  int     `json:"ztail,omitempty"` // the last ZTail bytes of the plaintext are zero (all of it if ZTail >= PLen): sparse-looking data, padding of archives
}

func (f FileSpec) Plain() []byte {
	p := core.Pattern(f.PSeed, f.PLen)
	for i := len(p) - f.ZTail; i < len(p); i++ {
		if i >= 0 {
			p[i] = 0
		}
	}
	return p
}

func (f FileSpec) Skeleton() string {
	s := ""
	for _, r := range f.Recips {
		s += r.String() + ","
	}
	return fmt.Sprintf("[%s]len=%d,armor=%v", s, f.PLen, f.Armor)
}

func BuildRecipients(rs []Recip) []age.Recipient {
	var out []age.Recipient
	for _, r := range rs {
		if r.Key != nil {
			out = append(out, world.Recipient(*r.Key))
		} else {
			out = append(out, r.Grease.Recipient())
		}
	}
	return out
}

// Keys returns the real (non-grease) keys of the list.
func (f FileSpec) Keys() []world.Key {
	var ks []world.Key
	for _, r := range f.Recips {
		if r.Key != nil {
			ks = append(ks, *r.Key)
		}
	}
	return ks
}

// GenRecips draws a recipient list the library accepts: 1..max from
// {X25519, ssh-ed25519, ssh-rsa, grease} in any order with duplicates, or
// exactly one scrypt recipient. At least one real key.
func GenRecips(r *core.RNG, max int, allowRSA, allowScrypt bool) []Recip {
	if allowScrypt && r.Chance(1, 8) {
		return []Recip{{Key: &world.Key{T: "s", K: r.Intn(world.NPass), WF: r.Range(1, 6)}}}
	}
	n := r.Range(1, max)
	if max >= 4 && r.Chance(1, 40) {
		n = r.Range(40, 70) // a header well beyond one 4096-byte buffer page
	}
	var out []Recip
	real := false
	for i := 0; i < n; i++ {
		switch c := r.Intn(10); {
		case c < 4:
			out = append(out, Recip{Key: &world.Key{T: "x", K: r.Intn(world.NX25519)}})
			real = true
		case c < 6:
			out = append(out, Recip{Key: &world.Key{T: "e", K: r.Intn(world.NEd)}})
			real = true
		case c < 8 && allowRSA:
			out = append(out, Recip{Key: &world.Key{T: "r", K: r.Intn(world.NRSA)}})
			real = true
		default:
			g := &Grease{N: r.Range(0, 2), Body: r.Pick(0, 47, 48, 49, 96, 96, 4000, 5000), Tag: r.Intn(100)}
			if r.Chance(1, 12) {
				g.Arg = r.Pick(100, 4070, 4090, 4100, 5000, 20000) // a stanza line around and beyond one 4096-byte buffer
				if g.N == 0 {
					g.N = 1
				}
			}
			if r.Chance(1, 6) {
				g.App = r.Pick(1, 8, 16, 17)
			}
			if r.Chance(1, 8) {
				g.Bare = true
				if g.N == 0 {
					g.N = 1
				}
			} else if r.Chance(1, 8) {
				g.NArg = r.Pick(3, 4, 5, 8, 20)
				if g.N == 0 {
					g.N = 1
				}
			}
			if !g.Bare && r.Chance(1, 7) {
				g.Dash = r.Range(1, 3)
				if g.N == 0 {
					g.N = 1
				}
			}
			out = append(out, Recip{Grease: g})
		}
	}
	if !real {
		out[r.Intn(len(out))] = Recip{Key: &world.Key{T: "x", K: r.Intn(world.NX25519)}}
	}
	return out
}

// GenPLen draws a plaintext length biased to chunk boundaries.
func GenPLen(r *core.RNG, maxChunks int) int {
	switch r.Intn(6) {
	case 0:
		return r.Pick(0, 1, 2, 15, 16, 17, 47, 48, 49)
	case 1, 2:
		k := r.Range(1, maxChunks)
		return k*65536 + r.Range(-1, 1)
	case 3:
		return r.Intn(300)
	case 4:
		return r.Intn(maxChunks*65536 + 1000)
	default:
		return r.Intn(5000)
	}
}

// GenSegs draws a write segmentation of n bytes (may contain zeros = empty writes).
func GenSegs(r *core.RNG, n int) []int {
	var segs []int
	rem := n
	mode := r.Intn(7)
	for rem > 0 && len(segs) < 4000 {
		var s int
		switch mode {
		case 6:
			// exactly one or two chunks (a full chunk stays parked in the writer), then everything else in one call
			s = rem
			if len(segs) == 0 && rem > 65536 {
				s = 65536 * (1 + r.Intn(2))
			}
		case 0:
			s = rem
		case 1:
			s = r.Pick(65536, 65536, 65537, 65535, 131072, 1)
		case 2:
			s = 1 + r.Intn(70000)
		case 3:
			if rem > 300 {
				s = rem - 150
			} else {
				s = 1
			}
		case 4:
			s = r.Pick(0, 1, 47, 48, 49, 4096, 65536, 200000)
		default:
			// pieces ending exactly on chunk boundaries
			s = 65536 - (n-rem)%65536
			if r.Chance(1, 3) {
				s = 1 + r.Intn(s)
			}
		}
		if s > rem {
			s = rem
		}
		segs = append(segs, s)
		rem -= s
	}
	if rem > 0 {
		segs = append(segs, rem)
	}
	if r.Chance(1, 4) {
		segs = append(segs, 0)
	}
	if r.Chance(1, 4) {
		segs = append([]int{0}, segs...)
	}
	if r.Chance(1, 5) {
		// io.Copy feeding: everything, or the tail after the first write
		k := -r.Pick(1<<20, 65536, 32768, 4096, 100, 7, 1<<20+1, 65537, 32769, 4097, 101) // odd: EOF together with the last bytes
		if len(segs) > 1 && r.Bool() {
			segs = []int{segs[0], k}
		} else {
			segs = []int{k}
		}
	}
	return segs
}

// EncResult is what the caller of Encrypt observed.
type EncResult struct {
	EncryptErr error
	WriteErrs  []error // per segment
	WriteNs    []int
	CloseErr   error
	ArmorErr   error // armor Close
	// AfterErr: results of one more Write and Close on the age writer after its first failure
	StickyChecked bool
	StickyOK      bool
	StickyDetail  string
	Accepted      int // plaintext bytes accepted by successful Writes
}

func (e *EncResult) AnyErr() bool {
	if e.EncryptErr != nil || e.CloseErr != nil || e.ArmorErr != nil {
		return true
	}
	for _, x := range e.WriteErrs {
		if x != nil {
			return true
		}
	}
	return false
}

// Encrypt runs Encrypt -> Write* -> Close (and armor Close) against dst with
// the spec's tape installed. afterWrite, if set, is called after every call.
func Encrypt(spec FileSpec, segs []int, dst io.Writer, tape *seam.Tape, afterCall func(accepted int)) *EncResult {
	return EncryptWith(BuildRecipients(spec.Recips), spec, segs, dst, tape, afterCall)
}

// EncryptWith is Encrypt with caller-supplied recipient objects (so that one
// object can be reused across several encryptions).
func EncryptWith(recipients []age.Recipient, spec FileSpec, segs []int, dst io.Writer, tape *seam.Tape, afterCall func(accepted int)) *EncResult {
	res := &EncResult{}
	restore := tape.Install()
	defer restore()
	p := spec.Plain()
	var aw io.WriteCloser
	out := dst
	if spec.Armor {
		aw = armor.NewWriter(dst)
		out = aw
	}
	w, err := age.Encrypt(out, recipients...)
	if afterCall != nil {
		afterCall(0)
	}
	if err != nil {
		res.EncryptErr = err
		return res
	}
	failed := false
	off := 0
	var scratch []byte
	for _, s := range segs {
		if s < 0 {
			// the caller feeds the rest with io.Copy from a plain reader (what cmd/age does):
			// uses the writer's ReadFrom if it has one, else Write calls of Copy's buffer size
			n64, err := io.Copy(w, &PlainReader{Data: p[off:], Max: -s})
			res.WriteNs = append(res.WriteNs, int(n64))
			res.WriteErrs = append(res.WriteErrs, err)
			if err != nil {
				failed = true
				break
			}
			off += int(n64)
			res.Accepted = off
			if afterCall != nil {
				afterCall(off)
			}
			break
		}
		if off+s > len(p) {
			s = len(p) - off
		}
		// the caller owns the buffer again as soon as Write returns (io.Writer contract): write from a
		// scratch buffer and scribble over it afterwards
		if cap(scratch) < s {
			scratch = make([]byte, s)
		}
		wb := scratch[:s]
		copy(wb, p[off:off+s])
		n, err := w.Write(wb)
		for i := range wb {
			wb[i] = 0xAA
		}
		res.WriteNs = append(res.WriteNs, n)
		res.WriteErrs = append(res.WriteErrs, err)
		if err != nil {
			failed = true
			break
		}
		off += s
		res.Accepted = off
		if afterCall != nil {
			afterCall(off)
		}
	}
	if failed {
		// a failed stream keeps failing
		res.StickyChecked = true
		_, e1 := w.Write([]byte{1})
		e2 := w.Close()
		res.StickyOK = e1 != nil && e2 != nil
		res.StickyDetail = fmt.Sprintf("after failed Write: Write->%v Close->%v", e1, e2)
		return res
	}
	res.CloseErr = w.Close()
	if afterCall != nil {
		afterCall(off)
	}
	if res.CloseErr != nil {
		res.StickyChecked = true
		_, e1 := w.Write([]byte{1})
		e2 := w.Close()
		res.StickyOK = e1 != nil && e2 != nil
		res.StickyDetail = fmt.Sprintf("after failed Close: Write->%v Close->%v", e1, e2)
		return res
	}
	if aw != nil {
		res.ArmorErr = aw.Close()
		if afterCall != nil {
			afterCall(off)
		}
	}
	return res
}

// PlainReader delivers Data in pieces of at most Max bytes and implements
// nothing but Read (no WriteTo), like a file or a pipe.
// An odd Max also makes it report io.EOF together with its last bytes (as decompressors and HTTP bodies do).
type PlainReader struct {
	Data []byte
	Max  int
}

func (r *PlainReader) Read(p []byte) (int, error) {
	if len(r.Data) == 0 {
		return 0, io.EOF
	}
	n := len(p)
	if r.Max > 0 && n > r.Max {
		n = r.Max
	}
	n = copy(p[:n], r.Data)
	r.Data = r.Data[n:]
	if len(r.Data) == 0 && r.Max%2 == 1 {
		return n, io.EOF
	}
	return n, nil
}

// MustEncrypt produces the file fault-free and returns the image and write list.
func MustEncrypt(spec FileSpec) ([]byte, *seam.SimDisk) {
	d := seam.NewDisk(nil, nil)
	res := Encrypt(spec, []int{spec.PLen}, d, seam.NewTape(spec.Tape), nil)
	if res.AnyErr() {
		panic(fmt.Sprintf("lib: fault-free encrypt failed: %+v", res))
	}
	return d.Data, d
}

// DecResult is what the caller of Decrypt observed.
type DecResult struct {
	DecryptErr error  // error from Decrypt itself (reader nil)
	ReaderNil  bool   // Decrypt returned a nil reader
	Released   []byte // bytes handed to the caller
	Err        error  // terminal error of reading (io.EOF = clean end)
	Sticky     bool   // after the terminal error two more Reads returned (0, err!=nil)
	StickyNote string
	Reads      int
	BadRead    string // non-empty if a Read broke the io.Reader contract (n<0, n>len, etc.)
}

func (d *DecResult) Clean() bool { return d.DecryptErr == nil && d.Err == io.EOF }

func (d *DecResult) ErrText() string {
	if d.DecryptErr != nil {
		return "Decrypt: " + d.DecryptErr.Error()
	}
	if d.Err != nil {
		return "Read: " + d.Err.Error()
	}
	return "<nil>"
}

// ReadSched is the caller's read-buffer schedule.
type ReadSched struct {
	Mode string `json:"mode"` // "all" (64KiB+ buffer), "one", "sizes"
	Seed uint64 `json:"seed,omitempty"`
	Max  int    `json:"max,omitempty"`
}

func GenReadSched(r *core.RNG) ReadSched {
	switch r.Intn(8) {
	case 7:
		// a byte-oriented consumer (compress/flate, encoding/gob): uses ReadByte if the reader offers it
		return ReadSched{Mode: "bytereader"}
	case 6:
		// a few Read calls (a magic number, a header), then io.Copy for the rest
		return ReadSched{Mode: "read-then-copy", Seed: r.U64() % 1000, Max: r.Pick(1, 4, 100, 65535, 65536, 70000)}
	case 5:
		return ReadSched{Mode: "copy"} // the caller drains with io.Copy into a plain writer (uses WriteTo if the reader has one)
	case 4:
		return ReadSched{Mode: "big"} // a 1 MiB caller buffer: several chunks fit in one Read
	case 0:
		return ReadSched{Mode: "all"}
	case 1:
		return ReadSched{Mode: "one"}
	default:
		return ReadSched{Mode: "sizes", Seed: r.U64() % 1000, Max: r.Pick(2, 100, 65536, 65537, 200000)}
	}
}

// plainSink is an io.Writer and nothing else (no ReadFrom).
type plainSink struct {
	res    *DecResult
	onRead func(int)
}

func (s *plainSink) Write(p []byte) (int, error) {
	s.res.Released = append(s.res.Released, p...)
	s.res.Reads++
	if s.onRead != nil {
		s.onRead(len(s.res.Released))
	}
	return len(p), nil
}

// Drain reads r to its terminal error under the schedule.
func Drain(r io.Reader, rs ReadSched, res *DecResult, onRead func(released int)) {
	if rs.Mode == "bytereader" {
		if br, ok := r.(io.ByteReader); ok {
			for {
				b, err := br.ReadByte()
				res.Reads++
				if err != nil {
					res.Err = err
					break
				}
				res.Released = append(res.Released, b)
				if onRead != nil {
					onRead(len(res.Released))
				}
			}
			// what the reader says afterwards through Read
			if res.Err == io.EOF {
				if n, err := r.Read(make([]byte, 1)); n != 0 || err != io.EOF {
					res.Sticky = false
					res.StickyNote = fmt.Sprintf("after ReadByte reported EOF, Read returned (%d, %v)", n, err)
				} else {
					res.Sticky = true
				}
			} else {
				res.Sticky = true
			}
			return
		}
		rs = ReadSched{Mode: "one"}
	}
	if rs.Mode == "read-then-copy" {
		// one or two Reads first
		rng := core.NewRNG(rs.Seed ^ 0x7c)
		buf := make([]byte, rs.Max+1)
		k := 1 + rng.Intn(2)
		for i := 0; i < k; i++ {
			n, err := r.Read(buf[:1+rng.Intn(rs.Max)])
			res.Reads++
			res.Released = append(res.Released, buf[:n]...)
			if onRead != nil {
				onRead(len(res.Released))
			}
			if err != nil {
				res.Err = err
				break
			}
		}
		if res.Err == nil {
			rs.Mode = "copy"
		}
	}
	if rs.Mode == "copy" && res.Err == nil {
		// io.Copy reports a clean end of stream as a nil error
		_, err := io.Copy(&plainSink{res, onRead}, r)
		if err == nil {
			err = io.EOF
		}
		res.Err = err
		buf := make([]byte, 16)
		n1, e1 := r.Read(buf)
		n2, e2 := r.Read(buf[:1])
		res.Sticky = n1 == 0 && n2 == 0 && e1 != nil && e2 != nil
		if res.Err == io.EOF {
			res.Sticky = res.Sticky && e1 == io.EOF && e2 == io.EOF
		} else {
			res.Sticky = res.Sticky && e1 != io.EOF && e2 != io.EOF
		}
		res.StickyNote = fmt.Sprintf("after io.Copy -> %v: (%d,%v) (%d,%v)", res.Err, n1, e1, n2, e2)
		return
	}
	rng := core.NewRNG(rs.Seed ^ 0x4ead)
	n0 := 200001
	if rs.Mode == "big" {
		n0 = 1 << 20
	}
	buf := make([]byte, n0)
	for {
		sz := 70000
		switch rs.Mode {
		case "big":
			sz = 1 << 20
		case "one":
			sz = 1
		case "sizes":
			m := rs.Max
			if m <= 0 {
				m = 100
			}
			sz = rng.Intn(m + 1) // includes 0
		}
		if res.Reads > 40_000_000 {
			res.Err = errors.New("sim: read budget exhausted (hang?)")
			return
		}
		n, err := r.Read(buf[:sz])
		res.Reads++
		if n < 0 || n > sz {
			res.BadRead = fmt.Sprintf("Read(len %d) returned n=%d", sz, n)
			return
		}
		res.Released = append(res.Released, buf[:n]...)
		if onRead != nil {
			onRead(len(res.Released))
		}
		if err != nil {
			res.Err = err
			break
		}
	}
	// stickiness: the failed (or finished) reader keeps returning an error and no data
	n1, e1 := r.Read(buf[:16])
	n2, e2 := r.Read(buf[:1])
	res.Sticky = n1 == 0 && n2 == 0 && e1 != nil && e2 != nil
	if res.Err == io.EOF {
		res.Sticky = res.Sticky && e1 == io.EOF && e2 == io.EOF
	} else {
		res.Sticky = res.Sticky && e1 != io.EOF && e2 != io.EOF
	}
	res.StickyNote = fmt.Sprintf("after %v: (%d,%v) (%d,%v)", res.Err, n1, e1, n2, e2)
}

// Decrypt runs Decrypt -> Read* on src.
func Decrypt(src io.Reader, armored bool, ids []age.Identity, rs ReadSched, onRead func(released int)) *DecResult {
	res := &DecResult{}
	in := src
	if armored {
		in = armor.NewReader(src)
	}
	r, err := age.Decrypt(in, ids...)
	if err != nil {
		res.DecryptErr = err
		res.ReaderNil = r == nil
		return res
	}
	if r == nil {
		res.ReaderNil = true
		res.DecryptErr = errors.New("sim: Decrypt returned nil reader and nil error")
		return res
	}
	Drain(r, rs, res, onRead)
	return res
}

// RefOpen opens a complete image with the reference model.
func RefOpen(img []byte, armored bool, k world.Key) ([]byte, []byte, error) {
	if armored {
		d, err := ref.Dearmor(string(img))
		if err != nil {
			return nil, nil, err
		}
		img = d
	}
	return ref.Decrypt(img, world.RefUnwrapper(k))
}

// Layout describes where things are in a binary file written by the library.
type Layout struct {
	HeaderLen int
	Header    *ref.Header
	FileKey   []byte
	Nonce     []byte
	StreamKey []byte
	Payload   []byte // after the nonce
	NChunks   int
}

func ParseLayout(bin []byte, k world.Key) (*Layout, error) {
	h, rest, err := ref.ParseHeader(bin)
	if err != nil {
		return nil, err
	}
	fk, err := world.RefUnwrapper(k)(h.Stanzas)
	if err != nil {
		return nil, err
	}
	if len(rest) < 16 {
		return nil, errors.New("lib: short file")
	}
	l := &Layout{HeaderLen: len(bin) - len(rest), Header: h, FileKey: fk, Nonce: rest[:16], Payload: rest[16:]}
	l.StreamKey = ref.StreamKey(fk, l.Nonce)
	l.NChunks = (len(l.Payload) + ref.EncChunk - 1) / ref.EncChunk
	return l, nil
}

func IsPrefix(a, b []byte) bool { return len(a) <= len(b) && bytes.Equal(a, b[:len(a)]) }

// ClampGrease keeps exhaustive sweeps small: large unknown stanzas are for sampled runs.
func ClampGrease(rs []Recip, max int) {
	for _, r := range rs {
		if r.Grease != nil && r.Grease.Body > max {
			r.Grease.Body = max
		}
		if r.Grease != nil && r.Grease.Arg > max {
			r.Grease.Arg = 0
		}
	}
}
