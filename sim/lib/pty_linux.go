package lib

import (
	"bytes"
	"fmt"
	"os"
	"os/exec"
	"syscall"
	"time"
	"unsafe"
)

// PTY is a pseudo-terminal pair: the child gets the slave as its controlling terminal (what /dev/tty then
// names), the simulator plays the person at the keyboard on the master.
type PTY struct {
	Master *os.File
	slave  string
	seen   bytes.Buffer
}

func OpenPTY() (*PTY, error) {
	m, err := os.OpenFile("/dev/ptmx", os.O_RDWR|syscall.O_NOCTTY, 0)
	if err != nil {
		return nil, err
	}
	var unlock int32
	if _, _, e := syscall.Syscall(syscall.SYS_IOCTL, m.Fd(), syscall.TIOCSPTLCK, uintptr(unsafe.Pointer(&unlock))); e != 0 {
		m.Close()
		return nil, fmt.Errorf("unlockpt: %v", e)
	}
	var n uint32
	if _, _, e := syscall.Syscall(syscall.SYS_IOCTL, m.Fd(), syscall.TIOCGPTN, uintptr(unsafe.Pointer(&n))); e != 0 {
		m.Close()
		return nil, fmt.Errorf("ptsname: %v", e)
	}
	return &PTY{Master: m, slave: fmt.Sprintf("/dev/pts/%d", n)}, nil
}

// Start runs cmd in a new session whose controlling terminal is the slave (also its stdin).
func (p *PTY) Start(cmd *exec.Cmd) error {
	s, err := os.OpenFile(p.slave, os.O_RDWR|syscall.O_NOCTTY, 0)
	if err != nil {
		return err
	}
	defer s.Close()
	cmd.Stdin = s
	cmd.SysProcAttr = &syscall.SysProcAttr{Setsid: true, Setctty: true, Ctty: 0}
	return cmd.Start()
}

// Expect reads what the child prints to the terminal until sub has appeared; it returns everything seen so far.
func (p *PTY) Expect(sub string, timeout time.Duration) (string, error) {
	deadline := time.Now().Add(timeout)
	buf := make([]byte, 4096)
	for !bytes.Contains(p.seen.Bytes(), []byte(sub)) {
		if time.Now().After(deadline) {
			return p.seen.String(), fmt.Errorf("terminal: %q not seen within %v", sub, timeout)
		}
		p.Master.SetReadDeadline(time.Now().Add(200 * time.Millisecond))
		n, err := p.Master.Read(buf)
		p.seen.Write(buf[:n])
		if err != nil && !os.IsTimeout(err) {
			if bytes.Contains(p.seen.Bytes(), []byte(sub)) {
				break
			}
			return p.seen.String(), fmt.Errorf("terminal closed before %q was seen: %v", sub, err)
		}
	}
	return p.seen.String(), nil
}

// Type sends keystrokes.
func (p *PTY) Type(s string) error {
	_, err := p.Master.Write([]byte(s))
	return err
}

func (p *PTY) Close() { p.Master.Close() }
