package ref

import (
	"errors"
	"strings"
)

// Bech32 (BIP 173, no length limit) written from the BIP text.

const bech32Charset = "qpzry9x8gf2tvdw0s3jn54khce6mua7l"

func bech32Polymod(values []byte) uint32 {
	gen := []uint32{0x3b6a57b2, 0x26508e6d, 0x1ea119fa, 0x3d4233dd, 0x2a1462b3}
	chk := uint32(1)
	for _, v := range values {
		top := chk >> 25
		chk = (chk&0x1ffffff)<<5 ^ uint32(v)
		for i := 0; i < 5; i++ {
			if (top>>uint(i))&1 == 1 {
				chk ^= gen[i]
			}
		}
	}
	return chk
}

func bech32HrpExpand(hrp string) []byte {
	var out []byte
	for i := 0; i < len(hrp); i++ {
		out = append(out, hrp[i]>>5)
	}
	out = append(out, 0)
	for i := 0; i < len(hrp); i++ {
		out = append(out, hrp[i]&31)
	}
	return out
}

func convertBits(data []byte, from, to uint, pad bool) ([]byte, error) {
	var acc uint32
	var bits uint
	var out []byte
	maxv := uint32(1)<<to - 1
	for _, v := range data {
		acc = acc<<from | uint32(v)
		bits += from
		for bits >= to {
			bits -= to
			out = append(out, byte(acc>>bits&maxv))
		}
	}
	if pad {
		if bits > 0 {
			out = append(out, byte(acc<<(to-bits)&maxv))
		}
	} else if bits >= from || acc<<(to-bits)&maxv != 0 {
		return nil, errors.New("ref: bech32 padding")
	}
	return out, nil
}

// Bech32Encode returns the lower-case encoding.
func Bech32Encode(hrp string, data []byte) string {
	hrp = strings.ToLower(hrp)
	v, _ := convertBits(data, 8, 5, true)
	chkIn := append(bech32HrpExpand(hrp), v...)
	chkIn = append(chkIn, 0, 0, 0, 0, 0, 0)
	pm := bech32Polymod(chkIn) ^ 1
	var b strings.Builder
	b.WriteString(hrp + "1")
	for _, x := range v {
		b.WriteByte(bech32Charset[x])
	}
	for i := 0; i < 6; i++ {
		b.WriteByte(bech32Charset[(pm>>uint(5*(5-i)))&31])
	}
	return b.String()
}

// Bech32Decode accepts all-lower or all-upper strings; returns hrp as spelled.
func Bech32Decode(s string) (string, []byte, error) {
	if strings.ToLower(s) != s && strings.ToUpper(s) != s {
		return "", nil, errors.New("ref: bech32 mixed case")
	}
	for i := 0; i < len(s); i++ {
		if s[i] < 33 || s[i] > 126 {
			return "", nil, errors.New("ref: bech32 char")
		}
	}
	pos := strings.LastIndex(s, "1")
	if pos < 1 || pos+7 > len(s) {
		return "", nil, errors.New("ref: bech32 separator")
	}
	hrp := s[:pos]
	var v []byte
	for _, c := range strings.ToLower(s[pos+1:]) {
		i := strings.IndexRune(bech32Charset, c)
		if i < 0 {
			return "", nil, errors.New("ref: bech32 data char")
		}
		v = append(v, byte(i))
	}
	if bech32Polymod(append(bech32HrpExpand(strings.ToLower(hrp)), v...)) != 1 {
		return "", nil, errors.New("ref: bech32 checksum")
	}
	data, err := convertBits(v[:len(v)-6], 5, 8, false)
	if err != nil {
		return "", nil, err
	}
	return hrp, data, nil
}
