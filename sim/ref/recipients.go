package ref

import (
	"crypto/ed25519"
	"crypto/rsa"
	"crypto/sha256"
	"crypto/sha512"
	"encoding/binary"
	"errors"
	"io"
	"math/big"
	"strconv"

	"golang.org/x/crypto/chacha20poly1305"
	"golang.org/x/crypto/curve25519"
	"golang.org/x/crypto/scrypt"
)

// ErrNotMine means the stanza is not addressed to this key (try the next).
var ErrNotMine = errors.New("ref: stanza not for this identity")

func sealZero(key, pt []byte) []byte {
	a, err := chacha20poly1305.New(key)
	if err != nil {
		panic(err)
	}
	return a.Seal(nil, make([]byte, 12), pt, nil)
}

func openZero(key, ct []byte) ([]byte, bool) {
	a, err := chacha20poly1305.New(key)
	if err != nil {
		panic(err)
	}
	pt, err := a.Open(nil, make([]byte, 12), ct, nil)
	return pt, err == nil
}

func x25519(scalar, point []byte) []byte {
	out, err := curve25519.X25519(scalar, point)
	if err != nil {
		return nil
	}
	return out
}

var basepoint = []byte{9, 0, 0, 0, 0, 0, 0, 0, 0, 0, 0, 0, 0, 0, 0, 0, 0, 0, 0, 0, 0, 0, 0, 0, 0, 0, 0, 0, 0, 0, 0, 0}

func X25519Public(secret []byte) []byte { return x25519(secret, basepoint) }

// ---------- X25519 ----------
// -> X25519 b64(ephemeral share)
// body = ChaCha20-Poly1305(key = HKDF(ikm = shared, salt = share || recipient, info = "age-encryption.org/v1/X25519"), nonce 0, file key)

func WrapX25519(fileKey, ephemeral, recipient []byte) *Stanza {
	share := X25519Public(ephemeral)
	shared := x25519(ephemeral, recipient)
	salt := append(append([]byte{}, share...), recipient...)
	wk := hkdf32(shared, salt, "age-encryption.org/v1/X25519")
	return &Stanza{Type: "X25519", Args: []string{B64(share)}, Body: sealZero(wk, fileKey)}
}

func UnwrapX25519(s *Stanza, secret []byte) ([]byte, error) {
	if s.Type != "X25519" {
		return nil, ErrNotMine
	}
	if len(s.Args) != 1 {
		return nil, errors.New("ref: X25519 args")
	}
	share, err := UnB64(s.Args[0])
	if err != nil || len(share) != 32 {
		return nil, errors.New("ref: X25519 share")
	}
	if len(s.Body) != 32 {
		return nil, errors.New("ref: X25519 body size")
	}
	shared := x25519(secret, share)
	if shared == nil {
		return nil, errors.New("ref: X25519 low order")
	}
	salt := append(append([]byte{}, share...), X25519Public(secret)...)
	wk := hkdf32(shared, salt, "age-encryption.org/v1/X25519")
	fk, ok := openZero(wk, s.Body)
	if !ok {
		return nil, ErrNotMine
	}
	return fk, nil
}

// ---------- scrypt ----------
// -> scrypt b64(salt16) logN
// key = scrypt(pass, "age-encryption.org/v1/scrypt" || salt, N=2^logN, r=8, p=1, 32)

func WrapScrypt(fileKey, salt []byte, logN int, pass string) *Stanza {
	k, err := scrypt.Key([]byte(pass), append([]byte("age-encryption.org/v1/scrypt"), salt...), 1<<uint(logN), 8, 1, 32)
	if err != nil {
		panic(err)
	}
	return &Stanza{Type: "scrypt", Args: []string{B64(salt), strconv.Itoa(logN)}, Body: sealZero(k, fileKey)}
}

func UnwrapScrypt(s *Stanza, pass string, maxLogN int) ([]byte, error) {
	if s.Type != "scrypt" {
		return nil, ErrNotMine
	}
	if len(s.Args) != 2 {
		return nil, errors.New("ref: scrypt args")
	}
	salt, err := UnB64(s.Args[0])
	if err != nil || len(salt) != 16 {
		return nil, errors.New("ref: scrypt salt")
	}
	w := s.Args[1]
	if len(w) == 0 || w[0] < '1' || w[0] > '9' || len(w) > 2 {
		return nil, errors.New("ref: scrypt work factor")
	}
	for i := 0; i < len(w); i++ {
		if w[i] < '0' || w[i] > '9' {
			return nil, errors.New("ref: scrypt work factor")
		}
	}
	logN, _ := strconv.Atoi(w)
	if logN > maxLogN {
		return nil, errors.New("ref: scrypt work factor too large")
	}
	if len(s.Body) != 32 {
		return nil, errors.New("ref: scrypt body size")
	}
	k, err := scrypt.Key([]byte(pass), append([]byte("age-encryption.org/v1/scrypt"), salt...), 1<<uint(logN), 8, 1, 32)
	if err != nil {
		return nil, err
	}
	fk, ok := openZero(k, s.Body)
	if !ok {
		return nil, ErrNotMine
	}
	return fk, nil
}

// ---------- SSH wire encodings and tags ----------

func sshString(b []byte) []byte {
	out := make([]byte, 4, 4+len(b))
	binary.BigEndian.PutUint32(out, uint32(len(b)))
	return append(out, b...)
}

func sshMpint(n *big.Int) []byte {
	b := n.Bytes()
	if len(b) > 0 && b[0]&0x80 != 0 {
		b = append([]byte{0}, b...)
	}
	return sshString(b)
}

func WireEd25519(pub ed25519.PublicKey) []byte {
	return append(sshString([]byte("ssh-ed25519")), sshString(pub)...)
}

func WireRSA(pub *rsa.PublicKey) []byte {
	out := sshString([]byte("ssh-rsa"))
	out = append(out, sshMpint(big.NewInt(int64(pub.E)))...)
	return append(out, sshMpint(pub.N)...)
}

// SSHTag = base64(SHA-256(wire public key)[:4]).
func SSHTag(wire []byte) string {
	h := sha256.Sum256(wire)
	return B64(h[:4])
}

// ---------- ssh-ed25519 ----------

var p25519 = new(big.Int).Sub(new(big.Int).Lsh(big.NewInt(1), 255), big.NewInt(19))

// EdToMontgomery: u = (1+y)/(1-y) mod p, little endian.
func EdToMontgomery(pub ed25519.PublicKey) []byte {
	yb := make([]byte, 32)
	for i := 0; i < 32; i++ {
		yb[i] = pub[31-i]
	}
	yb[0] &= 0x7f
	y := new(big.Int).SetBytes(yb)
	one := big.NewInt(1)
	num := new(big.Int).Add(one, y)
	den := new(big.Int).Sub(one, y)
	den.Mod(den, p25519)
	den.ModInverse(den, p25519)
	u := num.Mul(num, den)
	u.Mod(u, p25519)
	ub := u.Bytes()
	out := make([]byte, 32)
	for i := 0; i < len(ub); i++ {
		out[i] = ub[len(ub)-1-i]
	}
	return out
}

func EdSeedToScalar(seed []byte) []byte {
	h := sha512.Sum512(seed)
	return h[:32]
}

// -> ssh-ed25519 tag b64(share)
// tweak = HKDF(ikm = empty, salt = wire pubkey, info = label); shared' = X25519(tweak, X25519(eph, recipient))
// key = HKDF(ikm = shared', salt = share || recipient, info = label)
const edLabel = "age-encryption.org/v1/ssh-ed25519"

func WrapSSHEd25519(fileKey, ephemeral []byte, pub ed25519.PublicKey) *Stanza {
	wire := WireEd25519(pub)
	recipient := EdToMontgomery(pub)
	share := X25519Public(ephemeral)
	shared := x25519(ephemeral, recipient)
	tweak := hkdf32(nil, wire, edLabel)
	shared = x25519(tweak, shared)
	salt := append(append([]byte{}, share...), recipient...)
	wk := hkdf32(shared, salt, edLabel)
	return &Stanza{Type: "ssh-ed25519", Args: []string{SSHTag(wire), B64(share)}, Body: sealZero(wk, fileKey)}
}

func UnwrapSSHEd25519(s *Stanza, priv ed25519.PrivateKey) ([]byte, error) {
	if s.Type != "ssh-ed25519" {
		return nil, ErrNotMine
	}
	if len(s.Args) != 2 {
		return nil, errors.New("ref: ssh-ed25519 args")
	}
	pub := priv.Public().(ed25519.PublicKey)
	wire := WireEd25519(pub)
	share, err := UnB64(s.Args[1])
	if err != nil || len(share) != 32 {
		return nil, errors.New("ref: ssh-ed25519 share")
	}
	if s.Args[0] != SSHTag(wire) {
		return nil, ErrNotMine
	}
	secret := EdSeedToScalar(priv.Seed())
	mine := X25519Public(secret)
	shared := x25519(secret, share)
	if shared == nil {
		return nil, errors.New("ref: low order")
	}
	tweak := hkdf32(nil, wire, edLabel)
	shared = x25519(tweak, shared)
	salt := append(append([]byte{}, share...), mine...)
	wk := hkdf32(shared, salt, edLabel)
	fk, ok := openZero(wk, s.Body)
	if !ok {
		return nil, errors.New("ref: ssh-ed25519 body does not open")
	}
	return fk, nil
}

// ---------- ssh-rsa ----------
// -> ssh-rsa tag ; body = RSAES-OAEP(SHA-256, label "age-encryption.org/v1/ssh-rsa")

const rsaLabel = "age-encryption.org/v1/ssh-rsa"

func WrapSSHRSA(fileKey []byte, random io.Reader, pub *rsa.PublicKey) (*Stanza, error) {
	body, err := rsa.EncryptOAEP(sha256.New(), random, pub, fileKey, []byte(rsaLabel))
	if err != nil {
		return nil, err
	}
	return &Stanza{Type: "ssh-rsa", Args: []string{SSHTag(WireRSA(pub))}, Body: body}, nil
}

func UnwrapSSHRSA(s *Stanza, priv *rsa.PrivateKey) ([]byte, error) {
	if s.Type != "ssh-rsa" {
		return nil, ErrNotMine
	}
	if len(s.Args) != 1 {
		return nil, errors.New("ref: ssh-rsa args")
	}
	if s.Args[0] != SSHTag(WireRSA(&priv.PublicKey)) {
		return nil, ErrNotMine
	}
	fk, err := rsa.DecryptOAEP(sha256.New(), nil, priv, s.Body, []byte(rsaLabel))
	if err != nil {
		return nil, errors.New("ref: ssh-rsa body does not open")
	}
	return fk, nil
}

// ---------- unwrappers over stanza lists ----------

func each(stanzas []*Stanza, f func(*Stanza) ([]byte, error)) ([]byte, error) {
	for _, s := range stanzas {
		fk, err := f(s)
		if err == ErrNotMine {
			continue
		}
		return fk, err
	}
	return nil, ErrNoMatch
}

func ByX25519(secret []byte) Unwrapper {
	return func(st []*Stanza) ([]byte, error) {
		return each(st, func(s *Stanza) ([]byte, error) { return UnwrapX25519(s, secret) })
	}
}

func ByScrypt(pass string, maxLogN int) Unwrapper {
	return func(st []*Stanza) ([]byte, error) {
		for _, s := range st {
			if s.Type == "scrypt" && len(st) != 1 {
				return nil, errors.New("ref: scrypt stanza must be alone")
			}
		}
		return each(st, func(s *Stanza) ([]byte, error) { return UnwrapScrypt(s, pass, maxLogN) })
	}
}

func ByEd25519(priv ed25519.PrivateKey) Unwrapper {
	return func(st []*Stanza) ([]byte, error) {
		return each(st, func(s *Stanza) ([]byte, error) { return UnwrapSSHEd25519(s, priv) })
	}
}

func ByRSA(priv *rsa.PrivateKey) Unwrapper {
	return func(st []*Stanza) ([]byte, error) {
		return each(st, func(s *Stanza) ([]byte, error) { return UnwrapSSHRSA(s, priv) })
	}
}
