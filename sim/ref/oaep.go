package ref

import (
	"crypto/rsa"
	"crypto/sha256"
	"encoding/binary"
	"errors"
	"math/big"
)

// RSAES-OAEP (RFC 8017 §7.1.2) with SHA-256 and MGF1-SHA-256, written from the
// RFC with math/big so that the random seed can be recovered as well.

func mgf1(seed []byte, n int) []byte {
	var out []byte
	for ctr := uint32(0); len(out) < n; ctr++ {
		var c [4]byte
		binary.BigEndian.PutUint32(c[:], ctr)
		h := sha256.Sum256(append(append([]byte{}, seed...), c[:]...))
		out = append(out, h[:]...)
	}
	return out[:n]
}

func xorBytes(a, b []byte) []byte {
	out := make([]byte, len(a))
	for i := range a {
		out[i] = a[i] ^ b[i]
	}
	return out
}

// OAEPOpen returns the message and the 32-byte OAEP seed.
func OAEPOpen(priv *rsa.PrivateKey, ct []byte, label string) (msg, seed []byte, err error) {
	k := (priv.N.BitLen() + 7) / 8
	if len(ct) != k || k < 2*32+2 {
		return nil, nil, errors.New("ref: oaep length")
	}
	c := new(big.Int).SetBytes(ct)
	if c.Cmp(priv.N) >= 0 {
		return nil, nil, errors.New("ref: oaep representative out of range")
	}
	m := new(big.Int).Exp(c, priv.D, priv.N)
	em := m.FillBytes(make([]byte, k))
	if em[0] != 0 {
		return nil, nil, errors.New("ref: oaep first byte")
	}
	maskedSeed := em[1:33]
	maskedDB := em[33:]
	seed = xorBytes(maskedSeed, mgf1(maskedDB, 32))
	db := xorBytes(maskedDB, mgf1(seed, len(maskedDB)))
	lh := sha256.Sum256([]byte(label))
	for i := 0; i < 32; i++ {
		if db[i] != lh[i] {
			return nil, nil, errors.New("ref: oaep label hash")
		}
	}
	i := 32
	for i < len(db) && db[i] == 0 {
		i++
	}
	if i == len(db) || db[i] != 1 {
		return nil, nil, errors.New("ref: oaep padding")
	}
	return db[i+1:], seed, nil
}
