// Package ref is an independent implementation of the age v1 file format
// (age-encryption.org/v1, C2SP age.md) written from the specification on top
// of primitives only. It imports nothing from filippo.io/age. Every label and
// layout is spelled out literally so that a symmetric change in the code under
// test (same wrong label in Wrap and Unwrap) is still seen as a difference.
package ref

import (
	"bytes"
	"crypto/hmac"
	"crypto/sha256"
	"encoding/base64"
	"errors"
	"fmt"
	"io"
	"strings"

	"golang.org/x/crypto/chacha20poly1305"
	"golang.org/x/crypto/hkdf"
)

const (
	Intro     = "age-encryption.org/v1\n"
	ChunkSize = 65536
	TagSize   = 16
	EncChunk  = ChunkSize + TagSize
)

// ---------- base64 (canonical, unpadded, no whitespace) ----------

func B64(b []byte) string { return base64.RawStdEncoding.EncodeToString(b) }

// UnB64 decodes canonical unpadded base64; canonical means re-encoding gives
// the same string (rejects non-zero trailing bits, padding, CR/LF, spaces).
func UnB64(s string) ([]byte, error) {
	for i := 0; i < len(s); i++ {
		c := s[i]
		ok := c >= 'A' && c <= 'Z' || c >= 'a' && c <= 'z' || c >= '0' && c <= '9' || c == '+' || c == '/'
		if !ok {
			return nil, fmt.Errorf("ref: bad base64 char %q", c)
		}
	}
	b, err := base64.RawStdEncoding.DecodeString(s)
	if err != nil {
		return nil, err
	}
	if B64(b) != s {
		return nil, errors.New("ref: non-canonical base64")
	}
	return b, nil
}

// ---------- header ----------

type Stanza struct {
	Type string
	Args []string
	Body []byte
}

func (s *Stanza) Clone() *Stanza {
	c := &Stanza{Type: s.Type, Args: append([]string(nil), s.Args...), Body: append([]byte(nil), s.Body...)}
	return c
}

type Header struct {
	Stanzas []*Stanza
	MAC     []byte
}

// MarshalStanza: "-> type arg...\n" then the body in 64-column lines, always
// ended by a line shorter than 64 columns (possibly empty).
func MarshalStanza(s *Stanza) []byte {
	var b bytes.Buffer
	b.WriteString("->")
	b.WriteString(" " + s.Type)
	for _, a := range s.Args {
		b.WriteString(" " + a)
	}
	b.WriteString("\n")
	enc := B64(s.Body)
	for len(enc) >= 64 {
		b.WriteString(enc[:64])
		b.WriteString("\n")
		enc = enc[64:]
	}
	b.WriteString(enc)
	b.WriteString("\n")
	return b.Bytes()
}

func MarshalHeaderNoMAC(h *Header) []byte {
	var b bytes.Buffer
	b.WriteString(Intro)
	for _, s := range h.Stanzas {
		b.Write(MarshalStanza(s))
	}
	b.WriteString("---")
	return b.Bytes()
}

func MarshalHeader(h *Header) []byte {
	b := MarshalHeaderNoMAC(h)
	b = append(b, ' ')
	b = append(b, B64(h.MAC)...)
	b = append(b, '\n')
	return b
}

func hkdf32(secret, salt []byte, info string) []byte {
	out := make([]byte, 32)
	if _, err := io.ReadFull(hkdf.New(sha256.New, secret, salt, []byte(info)), out); err != nil {
		panic(err)
	}
	return out
}

// HeaderMAC = HMAC-SHA-256(HKDF-SHA-256(ikm=file key, salt=empty, info="header"), header up to and including "---").
func HeaderMAC(fileKey []byte, h *Header) []byte {
	k := hkdf32(fileKey, nil, "header")
	m := hmac.New(sha256.New, k)
	m.Write(MarshalHeaderNoMAC(h))
	return m.Sum(nil)
}

func validArg(s string) bool {
	if len(s) == 0 {
		return false
	}
	for i := 0; i < len(s); i++ {
		if s[i] < 33 || s[i] > 126 {
			return false
		}
	}
	return true
}

// ParseHeader strictly parses a header at the start of file and returns the
// remaining bytes (the payload).
func ParseHeader(file []byte) (*Header, []byte, error) {
	rest := file
	line := func() (string, error) {
		i := bytes.IndexByte(rest, '\n')
		if i < 0 {
			return "", errors.New("ref: unterminated line")
		}
		l := string(rest[:i])
		rest = rest[i+1:]
		return l, nil
	}
	l, err := line()
	if err != nil {
		return nil, nil, err
	}
	if l+"\n" != Intro {
		return nil, nil, fmt.Errorf("ref: bad intro %q", l)
	}
	h := &Header{}
	for {
		l, err := line()
		if err != nil {
			return nil, nil, err
		}
		if strings.HasPrefix(l, "---") {
			parts := strings.Split(l, " ")
			if len(parts) != 2 || parts[0] != "---" {
				return nil, nil, fmt.Errorf("ref: bad footer %q", l)
			}
			mac, err := UnB64(parts[1])
			if err != nil || len(mac) != 32 {
				return nil, nil, fmt.Errorf("ref: bad MAC %q", l)
			}
			h.MAC = mac
			return h, rest, nil
		}
		parts := strings.Split(l, " ")
		if parts[0] != "->" || len(parts) < 2 {
			return nil, nil, fmt.Errorf("ref: bad stanza line %q", l)
		}
		for _, a := range parts[1:] {
			if !validArg(a) {
				return nil, nil, fmt.Errorf("ref: bad stanza arg in %q", l)
			}
		}
		s := &Stanza{Type: parts[1], Args: append([]string{}, parts[2:]...)}
		for {
			bl, err := line()
			if err != nil {
				return nil, nil, err
			}
			b, err := UnB64(bl)
			if err != nil {
				return nil, nil, fmt.Errorf("ref: bad body line %q: %v", bl, err)
			}
			if len(b) > 48 {
				return nil, nil, fmt.Errorf("ref: long body line %q", bl)
			}
			s.Body = append(s.Body, b...)
			if len(b) < 48 {
				break
			}
		}
		h.Stanzas = append(h.Stanzas, s)
	}
}

// ---------- payload (STREAM) ----------

// StreamKey = HKDF-SHA-256(ikm=file key, salt=16-byte nonce, info="payload").
func StreamKey(fileKey, nonce []byte) []byte { return hkdf32(fileKey, nonce, "payload") }

// ChunkNonce: 11-byte big-endian counter followed by the final flag byte.
func ChunkNonce(counter uint64, final bool) []byte {
	n := make([]byte, 12)
	for i := 0; i < 8; i++ {
		n[10-i] = byte(counter >> (8 * uint(i)))
	}
	if final {
		n[11] = 1
	}
	return n
}

func SealChunk(streamKey []byte, counter uint64, final bool, pt []byte) []byte {
	a, err := chacha20poly1305.New(streamKey)
	if err != nil {
		panic(err)
	}
	return a.Seal(nil, ChunkNonce(counter, final), pt, nil)
}

func OpenChunk(streamKey []byte, counter uint64, final bool, ct []byte) ([]byte, bool) {
	a, err := chacha20poly1305.New(streamKey)
	if err != nil {
		panic(err)
	}
	pt, err := a.Open(nil, ChunkNonce(counter, final), ct, nil)
	return pt, err == nil
}

// SealPayload is the canonical chunking: 64 KiB chunks, the last one (which may
// be full, and is empty only for an empty plaintext) carries the final flag.
func SealPayload(streamKey, pt []byte) []byte {
	var out []byte
	var ctr uint64
	for len(pt) > ChunkSize {
		out = append(out, SealChunk(streamKey, ctr, false, pt[:ChunkSize])...)
		pt = pt[ChunkSize:]
		ctr++
	}
	return append(out, SealChunk(streamKey, ctr, true, pt)...)
}

var ErrPayload = errors.New("ref: payload rejected")

// OpenPayload strictly opens a whole payload (without the 16-byte nonce),
// chunk by chunk in file order. It returns the plaintext of the chunks that
// authenticated before the first problem, and an error unless the payload is
// exactly one canonical STREAM.
func OpenPayload(streamKey, ct []byte) ([]byte, error) {
	var out []byte
	var ctr uint64
	for {
		if len(ct) == 0 {
			return out, ErrPayload // ended without a final chunk
		}
		if len(ct) < EncChunk {
			if len(ct) < TagSize || (len(ct) == TagSize && ctr != 0) {
				return out, ErrPayload // empty final chunk only for an empty plaintext
			}
			pt, ok := OpenChunk(streamKey, ctr, true, ct)
			if !ok {
				return out, ErrPayload
			}
			return append(out, pt...), nil
		}
		c := ct[:EncChunk]
		ct = ct[EncChunk:]
		if pt, ok := OpenChunk(streamKey, ctr, false, c); ok {
			out = append(out, pt...)
			ctr++
			continue
		}
		pt, ok := OpenChunk(streamKey, ctr, true, c)
		if !ok {
			return out, ErrPayload
		}
		out = append(out, pt...)
		if len(ct) != 0 {
			return out, ErrPayload // data after the final chunk
		}
		return out, nil
	}
}

// ---------- whole file ----------

// File is everything that determines an age file.
type File struct {
	FileKey []byte
	Stanzas []*Stanza
	Nonce   []byte
	Plain   []byte
}

func (f *File) Header() *Header {
	h := &Header{Stanzas: f.Stanzas}
	h.MAC = HeaderMAC(f.FileKey, h)
	return h
}

func (f *File) Encode() []byte {
	out := MarshalHeader(f.Header())
	out = append(out, f.Nonce...)
	return append(out, SealPayload(StreamKey(f.FileKey, f.Nonce), f.Plain)...)
}

// Unwrapper tries to get the file key out of a stanza list.
type Unwrapper func(stanzas []*Stanza) (fileKey []byte, err error)

var ErrNoMatch = errors.New("ref: no stanza matched")
var ErrMAC = errors.New("ref: bad header MAC")
var ErrNonce = errors.New("ref: payload nonce missing or short")

// Decrypt opens a complete binary file with one unwrapper.
func Decrypt(file []byte, u Unwrapper) (plain []byte, fileKey []byte, err error) {
	h, rest, err := ParseHeader(file)
	if err != nil {
		return nil, nil, err
	}
	fk, err := u(h.Stanzas)
	if err != nil {
		return nil, nil, err
	}
	if len(fk) != 16 {
		return nil, nil, errors.New("ref: file key size")
	}
	if !hmac.Equal(HeaderMAC(fk, h), h.MAC) {
		return nil, fk, ErrMAC
	}
	if len(rest) < 16 {
		return nil, fk, ErrNonce
	}
	pt, err := OpenPayload(StreamKey(fk, rest[:16]), rest[16:])
	return pt, fk, err
}

// ---------- armor ----------

const (
	ArmorBegin = "-----BEGIN AGE ENCRYPTED FILE-----"
	ArmorEnd   = "-----END AGE ENCRYPTED FILE-----"
)

// Armor: strict PEM, padded standard base64 in 64-column lines, LF line ends,
// final line short (absent when the data length is a multiple of 48).
func Armor(data []byte) string {
	var b strings.Builder
	b.WriteString(ArmorBegin + "\n")
	enc := base64.StdEncoding.EncodeToString(data)
	for len(enc) > 0 {
		n := 64
		if len(enc) < n {
			n = len(enc)
		}
		b.WriteString(enc[:n] + "\n")
		enc = enc[n:]
	}
	b.WriteString(ArmorEnd + "\n")
	return b.String()
}

// NormaliseArmor applies exactly the documented tolerances: leading and
// trailing whitespace is stripped and CRLF becomes LF; a final LF is added.
func NormaliseArmor(text string) string {
	t := strings.ReplaceAll(text, "\r\n", "\n")
	t = strings.TrimSpace(t)
	return t + "\n"
}

// Dearmor strictly decodes; the text must equal Armor(data) after NormaliseArmor.
func Dearmor(text string) ([]byte, error) {
	t := NormaliseArmor(text)
	lines := strings.Split(strings.TrimSuffix(t, "\n"), "\n")
	if len(lines) < 2 || lines[0] != ArmorBegin || lines[len(lines)-1] != ArmorEnd {
		return nil, errors.New("ref: armor framing")
	}
	var data []byte
	body := lines[1 : len(lines)-1]
	for i, l := range body {
		if len(l) > 64 || len(l) == 0 || (len(l) < 64 && i != len(body)-1) {
			return nil, errors.New("ref: armor line length")
		}
		d, err := base64.StdEncoding.Strict().DecodeString(l)
		if err != nil {
			return nil, err
		}
		data = append(data, d...)
	}
	if Armor(data) != t {
		return nil, errors.New("ref: armor not canonical")
	}
	return data, nil
}
