package ref

import (
	"bytes"
	"crypto/sha256"
	"encoding/hex"
	"io/fs"
	"os"
	"strings"
	"testing"

	agetest "c2sp.org/CCTV/age"
)

// The reference model is validated against the CCTV vectors independently of
// the code under test: same verdict class, file key and payload hash.
func TestVectors(t *testing.T) {
	ents, err := fs.ReadDir(agetest.Vectors, ".")
	if err != nil {
		t.Fatal(err)
	}
	n := 0
	for _, e := range ents {
		raw, _ := fs.ReadFile(agetest.Vectors, e.Name())
		n++
		t.Run(e.Name(), func(t *testing.T) { checkVector(t, raw) })
	}
	if n != 114 {
		t.Fatalf("expected 114 vectors, got %d", n)
	}
}

func checkVector(t *testing.T, raw []byte) {
	var expect string
	var hash, fileKey []byte
	var us []Unwrapper
	armored := false
	file := raw
	for {
		line, rest, ok := bytes.Cut(file, []byte("\n"))
		if !ok {
			t.Fatal("no payload")
		}
		file = rest
		if len(line) == 0 {
			break
		}
		k, v, _ := strings.Cut(string(line), ": ")
		switch k {
		case "expect":
			expect = v
		case "payload":
			hash, _ = hex.DecodeString(v)
		case "file key":
			fileKey, _ = hex.DecodeString(v)
		case "identity":
			hrp, d, err := Bech32Decode(v)
			if err != nil || hrp != "AGE-SECRET-KEY-" || len(d) != 32 {
				t.Fatalf("identity: %v", err)
			}
			us = append(us, ByX25519(d))
		case "passphrase":
			us = append(us, ByScrypt(v, 22))
		case "armored":
			armored = true
		case "comment":
		default:
			t.Fatalf("unknown key %q", k)
		}
	}
	got := "success"
	var plain, fk []byte
	if armored {
		d, err := Dearmor(string(file))
		if err != nil {
			got = "armor failure"
		}
		file = d
	}
	if got == "success" {
		var err error
		for _, u := range us {
			plain, fk, err = Decrypt(file, u)
			if err != ErrNoMatch {
				break
			}
		}
		switch {
		case err == nil:
		case err == ErrMAC:
			got = "HMAC failure"
		case err == ErrNoMatch:
			got = "no match"
		case err == ErrPayload:
			got = "payload failure"
		default:
			got = "header failure"
			if strings.Contains(err.Error(), "scrypt stanza") || strings.Contains(err.Error(), "X25519") || strings.Contains(err.Error(), "ref: scrypt") {
				got = "header failure"
			}
		}
	}
	if got != expect {
		t.Fatalf("expect %q got %q", expect, got)
	}
	if expect == "success" {
		if h := sha256.Sum256(plain); !bytes.Equal(h[:], hash) {
			t.Fatal("payload hash")
		}
		if !bytes.Equal(fk, fileKey) {
			t.Fatal("file key")
		}
	}
	if expect == "payload failure" && hash != nil && !armored {
		if h := sha256.Sum256(plain); !bytes.Equal(h[:], hash) {
			t.Fatal("partial payload hash")
		}
	}
}

func TestExampleFile(t *testing.T) {
	repo := os.Getenv("VERIF_REPO")
	if repo == "" {
		repo = "/repo"
	}
	f, err := os.ReadFile(repo + "/testdata/example.age")
	if err != nil {
		t.Skip(err)
	}
	keys, _ := os.ReadFile(repo + "/testdata/example_keys.txt")
	ok := false
	for _, l := range strings.Split(string(keys), "\n") {
		if !strings.HasPrefix(l, "AGE-SECRET-KEY-") {
			continue
		}
		_, d, err := Bech32Decode(strings.TrimSpace(l))
		if err != nil {
			t.Fatal(err)
		}
		if _, _, err := Decrypt(f, ByX25519(d)); err == nil {
			ok = true
		}
	}
	if !ok {
		t.Fatal("example.age not opened by ref")
	}
}
