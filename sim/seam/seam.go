// Package seam holds the simulated objects that sit at the call boundaries the
// library shares with its caller: the randomness source, the destination
// writer and the ciphertext source.
package seam

import (
	"bufio"
	"crypto/rand"
	"errors"
	"fmt"
	"io"

	"verif/sim/core"
)

var ErrInjected = errors.New("sim: injected I/O fault")

// ErrTemporary is an injected fault that calls itself transient, as a read deadline on a connection does.
var ErrTemporary error = tempErr{}

type tempErr struct{}

func (tempErr) Error() string   { return "sim: injected i/o timeout" }
func (tempErr) Temporary() bool { return true }
func (tempErr) Timeout() bool   { return true }

// ---------- Tape: replaces crypto/rand.Reader ----------

type TapeRead struct{ Off, Len int }

type Tape struct {
	rng     *core.RNG
	Out     []byte     // everything handed out so far
	Reads   []TapeRead // every Read call
	FailAt  int        // read index at which to fail (-1 never)
	MaxRead int        // >0: a Read call hands out at most this many bytes (short reads without an error are legal for an io.Reader)
	Stutter int        // >0: every Stutter-th Read call hands out nothing and no error — (0, nil), legal for an io.Reader and absorbed by io.ReadFull — never twice in a row
	Yield   func(what string)
	calls   int
	// Passthrough records the real CSPRNG instead of generating.
	Passthrough io.Reader
}

func NewTape(seed uint64) *Tape { return &Tape{rng: core.NewRNG(seed ^ 0x7a9e5eed), FailAt: -1} }

func NewRecordingTape(real io.Reader) *Tape { return &Tape{Passthrough: real, FailAt: -1} }

func (t *Tape) Read(p []byte) (int, error) {
	if t.Yield != nil {
		t.Yield("rand")
	}
	if t.FailAt >= 0 && len(t.Reads) == t.FailAt {
		t.Reads = append(t.Reads, TapeRead{len(t.Out), 0})
		return 0, ErrInjected
	}
	if t.Passthrough != nil {
		n, err := t.Passthrough.Read(p)
		t.Reads = append(t.Reads, TapeRead{len(t.Out), n})
		t.Out = append(t.Out, p[:n]...)
		return n, err
	}
	t.calls++
	if t.Stutter > 0 && len(p) > 0 && t.calls%t.Stutter == 0 {
		if t.Stutter == 1 {
			t.Stutter = 2 // (every call would never end)
		}
		t.Reads = append(t.Reads, TapeRead{len(t.Out), 0})
		return 0, nil
	}
	if t.MaxRead > 0 && len(p) > t.MaxRead {
		p = p[:t.MaxRead]
	}
	b := t.rng.Bytes(len(p))
	copy(p, b)
	t.Reads = append(t.Reads, TapeRead{len(t.Out), len(p)})
	t.Out = append(t.Out, b...)
	return len(p), nil
}

// Install swaps crypto/rand.Reader; the returned function restores it.
func (t *Tape) Install() func() {
	old := rand.Reader
	rand.Reader = t
	return func() { rand.Reader = old }
}

// ---------- SimDisk: the destination ----------

type WriteRec struct {
	Off int
	Len int
}

// DiskFault: fail at write call index Call (>=0) or at byte offset Byte (>=0).
// Permanent: every later call fails too; otherwise only this one.
type DiskFault struct {
	Call      int  `json:"call"` // -1 = not by call index
	Byte      int  `json:"byte"` // -1 = not by offset
	Permanent bool `json:"perm"`
	Partial   bool `json:"partial"` // by-call faults: accept half the bytes before failing
}

type SimDisk struct {
	Data   []byte
	Writes []WriteRec
	Fault  *DiskFault
	Fired  int // number of calls that returned an injected error
	failed bool
	Log    *core.Log
	Yield  func(what string)
	Calls  int
	// KeepOffered: keep a copy of every buffer handed to Write, accepted or not
	KeepOffered bool
	Offered     [][]byte
}

func NewDisk(f *DiskFault, log *core.Log) *SimDisk { return &SimDisk{Fault: f, Log: log} }

func (d *SimDisk) Write(p []byte) (int, error) {
	if d.Yield != nil {
		d.Yield("dst.Write")
	}
	idx := d.Calls
	d.Calls++
	if d.KeepOffered {
		d.Offered = append(d.Offered, append([]byte(nil), p...))
	}
	accept := len(p)
	fail := false
	if f := d.Fault; f != nil {
		switch {
		case d.failed && f.Permanent:
			accept, fail = 0, true
		case d.failed && !f.Permanent:
		case f.Call >= 0 && idx == f.Call:
			fail = true
			accept = 0
			if f.Partial {
				accept = len(p) / 2
			}
		case f.Byte >= 0 && len(d.Data)+len(p) > f.Byte && !d.failed:
			fail = true
			accept = f.Byte - len(d.Data)
			if accept < 0 {
				accept = 0
			}
		}
	}
	d.Writes = append(d.Writes, WriteRec{Off: len(d.Data), Len: accept})
	d.Data = append(d.Data, p[:accept]...)
	if fail {
		d.failed = true
		d.Fired++
		d.Log.Add("dst.Write #%d len=%d -> (%d, injected)", idx, len(p), accept)
		return accept, ErrInjected
	}
	d.Log.Add("dst.Write #%d len=%d -> ok", idx, len(p))
	return len(p), nil
}

// ---------- SimSource: the ciphertext source ----------

// Delivery describes how bytes are handed to the reader.
type Delivery struct {
	Mode    string `json:"mode"`              // "whole" (bytes.Reader-like), "one", "pieces", "chunk"
	Seed    uint64 `json:"seed,omitempty"`    // for "pieces"
	MaxPc   int    `json:"max,omitempty"`     // max piece for "pieces"
	EOFWith bool   `json:"eof_with"`          // final piece delivered together with io.EOF
	Bufio   int    `json:"bufio,omitempty"`   // wrap in bufio.NewReaderSize (0 = none)
	Stutter int    `json:"stutter,omitempty"` // >0: every Stutter-th Read call returns (0, nil) — "nothing happened", which io.Reader allows — before the source goes on (also once right before its first end-of-file; never after it has reported end-of-file)
}

func (d Delivery) String() string {
	if d.Stutter > 0 {
		return fmt.Sprintf("%s/max%d/eofwith=%v/bufio%d/stutter%d", d.Mode, d.MaxPc, d.EOFWith, d.Bufio, d.Stutter)
	}
	return fmt.Sprintf("%s/max%d/eofwith=%v/bufio%d", d.Mode, d.MaxPc, d.EOFWith, d.Bufio)
}

// SrcFault: at byte offset At the source returns (K bytes, error).
type SrcFault struct {
	At   int    `json:"at"`
	K    int    `json:"k"`              // bytes delivered together with the error
	Mode string `json:"mode"`           // "sticky", "once-data", "once-eof"
	Temp bool   `json:"temp,omitempty"` // the error says Temporary() == true
}

type SimSource struct {
	img       []byte
	pos       int
	d         Delivery
	rng       *core.RNG
	Fault     *SrcFault
	Fired     int
	FiredK    int // bytes that were delivered together with the injected error
	failed    bool
	Consumed  int // bytes handed out so far
	Calls     int
	Log       *core.Log
	Yield     func(what string)
	EOFs      int
	stuttered bool // the previous call was a (0, nil)
	// OnAsk is called at the start of every Read with the number of bytes handed out so far
	OnAsk func(consumedBefore int)
}

func NewSource(img []byte, d Delivery, f *SrcFault, log *core.Log) *SimSource {
	return &SimSource{img: img, d: d, rng: core.NewRNG(d.Seed ^ 0x50c), Fault: f, Log: log}
}

// Reader returns the io.Reader to hand to the library (bufio-wrapped if asked).
func (s *SimSource) Reader() io.Reader {
	if s.d.Bufio > 0 {
		return bufio.NewReaderSize(s, s.d.Bufio)
	}
	return s
}

func (s *SimSource) Read(p []byte) (int, error) {
	if s.Yield != nil {
		s.Yield("src.Read")
	}
	s.Calls++
	if len(p) == 0 {
		return 0, nil
	}
	if s.OnAsk != nil {
		s.OnAsk(s.Consumed)
	}
	if s.d.Stutter > 0 && !s.stuttered && s.EOFs == 0 && (s.Calls%s.d.Stutter == 0 || s.pos == len(s.img)) {
		s.stuttered = true
		s.Log.Add("src.Read -> (0, nil)")
		return 0, nil
	}
	s.stuttered = false
	if f := s.Fault; f != nil {
		if s.failed && f.Mode == "sticky" {
			s.Log.Add("src.Read -> (0, injected sticky)")
			return 0, ErrInjected
		}
		if s.failed && f.Mode == "once-eof" {
			s.EOFs++
			return 0, io.EOF
		}
	}
	rem := len(s.img) - s.pos
	want := len(p)
	switch s.d.Mode {
	case "one":
		want = 1
	case "pieces":
		m := s.d.MaxPc
		if m <= 0 {
			m = 4096
		}
		want = 1 + s.rng.Intn(m)
	case "chunk":
		want = 65552
	}
	if want > len(p) {
		want = len(p)
	}
	if want > rem {
		want = rem
	}
	// fault?
	if f := s.Fault; f != nil && !s.failed && s.pos+want >= f.At && s.pos <= f.At {
		// deliver up to the fault offset in this call only if it is where we stand
		if s.pos < f.At {
			want = f.At - s.pos // stop exactly at the fault offset; fault fires next call
		} else {
			k := f.K
			if k > rem {
				k = rem
			}
			if k > len(p) {
				k = len(p)
			}
			copy(p, s.img[s.pos:s.pos+k])
			s.pos += k
			s.Consumed += k
			s.failed = true
			s.Fired++
			s.FiredK = k
			s.Log.Add("src.Read at %d -> (%d, injected %s)", f.At, k, f.Mode)
			if f.Temp {
				return k, ErrTemporary
			}
			return k, ErrInjected
		}
	}
	if rem == 0 {
		s.EOFs++
		s.Log.Add("src.Read -> (0, EOF)")
		return 0, io.EOF
	}
	copy(p, s.img[s.pos:s.pos+want])
	s.pos += want
	s.Consumed += want
	if s.pos == len(s.img) && s.d.EOFWith && (s.Fault == nil || s.failed || s.Fault.At != len(s.img)) {
		s.EOFs++
		s.Log.Add("src.Read -> (%d, EOF)", want)
		return want, io.EOF
	}
	return want, nil
}

// StdDeliveries is the fixed family always exercised.
func StdDeliveries() []Delivery {
	return []Delivery{
		{Mode: "whole"},
		{Mode: "whole", EOFWith: true},
		{Mode: "one"},
		{Mode: "one", EOFWith: true},
		{Mode: "pieces", MaxPc: 100, Seed: 1},
		{Mode: "chunk", EOFWith: true},
		{Mode: "whole", Bufio: 16},
		{Mode: "pieces", MaxPc: 5000, Seed: 2, EOFWith: true, Bufio: 4096},
		{Mode: "whole", EOFWith: true, Bufio: 65536},
	}
}

// GenDelivery draws a delivery schedule.
func GenDelivery(r *core.RNG) Delivery {
	d := Delivery{}
	switch r.Intn(5) {
	case 0:
		d.Mode = "whole"
	case 1:
		d.Mode = "one"
	case 2:
		d.Mode = "pieces"
		d.MaxPc = r.Pick(3, 17, 100, 4096, 70000)
		d.Seed = r.U64() % 1000
	case 3:
		d.Mode = "chunk"
	case 4:
		d.Mode = "pieces"
		d.MaxPc = r.Pick(2, 64, 65552)
		d.Seed = r.U64() % 1000
	}
	d.EOFWith = r.Bool()
	if r.Chance(1, 3) {
		d.Bufio = r.Pick(16, 64, 4095, 4096, 65536)
	}
	if r.Chance(1, 6) {
		d.Stutter = r.Pick(1, 2, 3, 7)
	}
	return d
}
