package core

import "testing"

type panicEngine struct{ Engine }

func (panicEngine) Execute(plan interface{}, c *Ctx) *Verdict {
	var xs []int
	_ = xs[3] // the simulator's own bug
	return nil
}

func TestPanicInHarnessCodeIsNotAViolation(t *testing.T) {
	v := SafeExecute(panicEngine{}, nil, &Ctx{Stats: NewStats(), Log: NewLog(false)})
	if v == nil || v.Clause != "harness" {
		t.Fatalf("verdict %+v, want clause harness", v)
	}
	lib := "goroutine 1 [running]:\nruntime/debug.Stack()\n\t/x.go:1\npanic({0x1, 0x2})\n\t/p.go:1\nbytes.(*Buffer).grow(...)\n\t/b.go:1\nfilippo.io/age/internal/stream.(*Reader).Read(...)\n\t/s.go:1\nverif/sim/lib.Drain(...)\n\t/l.go:1\n"
	if got := panicOrigin([]byte(lib)); got != "library" {
		t.Fatalf("origin %q, want library", got)
	}
}
