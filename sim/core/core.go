// Package core is the simulation driver: one integer (VERIF_SEED) decides every
// run; a run is generate(plan) -> execute(plan) -> verdict; violations are
// shrunk over the plan and written as replay files that re-execute exactly.
package core

import (
	"crypto/sha256"
	"encoding/binary"
	"encoding/hex"
	"encoding/json"
	"fmt"
	"hash"
	"runtime/debug"
	"sort"
	"strings"
	"time"
)

// ---------- PRNG: xoshiro256** seeded by splitmix64 ----------

type RNG struct{ s [4]uint64 }

func SplitMix(x *uint64) uint64 {
	*x += 0x9e3779b97f4a7c15
	z := *x
	z = (z ^ (z >> 30)) * 0xbf58476d1ce4e5b9
	z = (z ^ (z >> 27)) * 0x94d049bb133111eb
	return z ^ (z >> 31)
}

func NewRNG(seed uint64) *RNG {
	r := &RNG{}
	x := seed
	for i := range r.s {
		r.s[i] = SplitMix(&x)
	}
	return r
}

func rotl(x uint64, k uint) uint64 { return x<<k | x>>(64-k) }

func (r *RNG) U64() uint64 {
	res := rotl(r.s[1]*5, 7) * 9
	t := r.s[1] << 17
	r.s[2] ^= r.s[0]
	r.s[3] ^= r.s[1]
	r.s[1] ^= r.s[2]
	r.s[0] ^= r.s[3]
	r.s[2] ^= t
	r.s[3] = rotl(r.s[3], 45)
	return res
}

// Intn returns a value in [0,n).
func (r *RNG) Intn(n int) int {
	if n <= 0 {
		return 0
	}
	return int(r.U64() % uint64(n))
}

// Range returns a value in [lo,hi].
func (r *RNG) Range(lo, hi int) int { return lo + r.Intn(hi-lo+1) }
func (r *RNG) Bool() bool           { return r.U64()&1 == 1 }
func (r *RNG) Chance(num, den int) bool {
	return r.Intn(den) < num
}
func (r *RNG) Pick(n ...int) int { return n[r.Intn(len(n))] }
func (r *RNG) Bytes(n int) []byte {
	b := make([]byte, n)
	for i := 0; i < n; i += 8 {
		v := r.U64()
		for j := 0; j < 8 && i+j < n; j++ {
			b[i+j] = byte(v >> (8 * uint(j)))
		}
	}
	return b
}

// RunSeed derives the seed of run i of a batch.
func RunSeed(batch uint64, engine string, i uint64) uint64 {
	h := sha256.Sum256([]byte(fmt.Sprintf("%d/%s/%d", batch, engine, i)))
	return binary.LittleEndian.Uint64(h[:8])
}

// Perm returns a random permutation of 0..n-1.
func (r *RNG) Perm(n int) []int {
	out := make([]int, n)
	for i := range out {
		out[i] = i
	}
	for i := n - 1; i > 0; i-- {
		j := r.Intn(i + 1)
		out[i], out[j] = out[j], out[i]
	}
	return out
}

// Pattern produces deterministic pseudo-random bytes for (seed, len) so plans
// stay small: plaintexts are described, not stored.
func Pattern(seed uint64, n int) []byte {
	return NewRNG(seed ^ 0xa5a5a5a5).Bytes(n)
}

// ---------- event log (hash only; never draws from a PRNG or a clock) ----------

type Log struct {
	h    hash.Hash
	n    int
	Keep bool
	Text []string
}

func NewLog(keep bool) *Log { return &Log{h: sha256.New(), Keep: keep} }

func (l *Log) Add(format string, a ...interface{}) {
	if l == nil {
		return
	}
	s := fmt.Sprintf(format, a...)
	l.h.Write([]byte(s))
	l.h.Write([]byte{'\n'})
	l.n++
	if l.Keep && len(l.Text) < 400 {
		l.Text = append(l.Text, s)
	}
}

func (l *Log) Sum() string { return hex.EncodeToString(l.h.Sum(nil)[:12]) }
func (l *Log) Len() int    { return l.n }

// ---------- statistics ----------

type Stats struct {
	C    map[string]int64 // counters: faults fired, probes, evaluations
	Sigs map[uint64]struct{}
	Max  map[string]int64
}

func NewStats() *Stats {
	return &Stats{C: map[string]int64{}, Sigs: map[uint64]struct{}{}, Max: map[string]int64{}}
}

func (s *Stats) Inc(k string) { s.C[k]++ }
func (s *Stats) Add(k string, n int64) {
	s.C[k] += n
}
func (s *Stats) SetMax(k string, v int64) {
	if v > s.Max[k] {
		s.Max[k] = v
	}
}

// Eval counts one evaluated case; sig identifies its schedule-and-fault
// skeleton; nontrivial says whether it counts toward distinct_nontrivial.
func (s *Stats) Eval(sig string, nontrivial bool) {
	s.C["evaluations"]++
	if nontrivial {
		h := sha256.Sum256([]byte(sig))
		s.Sigs[binary.LittleEndian.Uint64(h[:8])] = struct{}{}
	}
}

func (s *Stats) Keys() []string {
	ks := make([]string, 0, len(s.C))
	for k := range s.C {
		ks = append(ks, k)
	}
	sort.Strings(ks)
	return ks
}

// ---------- engine interface ----------

type Verdict struct {
	Clause string      // oracle clause violated (identity of the violation class)
	Detail string      // human-readable
	Narrow interface{} // optional: a narrower plan (one concrete fault) that shows it
}

func (v *Verdict) String() string { return v.Clause + ": " + v.Detail }

func Fail(clause, format string, a ...interface{}) *Verdict {
	return &Verdict{Clause: clause, Detail: fmt.Sprintf(format, a...)}
}

type Ctx struct {
	Stats *Stats
	Log   *Log
	Tier  string
}

type Engine interface {
	ID() string    // property id
	Title() string // engine description
	// Generate draws one plan; everything random about a run is in the plan.
	Generate(r *RNG, tier string, index uint64) interface{}
	// NewPlan returns a pointer to an empty plan for JSON decoding.
	NewPlan() interface{}
	// Execute interprets the plan; pure function of the plan and the code under test.
	Execute(plan interface{}, c *Ctx) *Verdict
	// Shrinks returns candidate simplifications of a failing plan, simplest first.
	Shrinks(plan interface{}) []interface{}
	// Runs per tier.
	Runs(tier string) int
	// Meta describes rule/real-vs-stub/assumptions for the evidence file.
	Meta() Meta
}

type Meta struct {
	Level       string
	Rule        string
	Assumptions []string
	Real        []string
	Stub        []string
	FaultKinds  []string // counters that are injected fault kinds
	Probes      []string // counters that are rare-branch probes
}

func Clone(e Engine, plan interface{}) interface{} {
	b, err := json.Marshal(plan)
	if err != nil {
		panic(err)
	}
	p := e.NewPlan()
	if err := json.Unmarshal(b, p); err != nil {
		panic(err)
	}
	return p
}

func PlanJSON(plan interface{}) json.RawMessage {
	b, err := json.Marshal(plan)
	if err != nil {
		panic(err)
	}
	return b
}

// SafeExecute runs Execute and turns a panic into a verdict: the property run
// hit a panic in the code under test (or harness); it is reported, never lost.
func SafeExecute(e Engine, plan interface{}, c *Ctx) (v *Verdict) {
	defer func() {
		if r := recover(); r != nil {
			// whose panic? One raised in the code under test (or below it) is a finding; one raised in the simulator's
			// own code is a broken harness and must never be reported as a violation (exit 2 class).
			if panicOrigin(debug.Stack()) == "harness" {
				v = Fail("harness", "panic in the simulator's own code: %v", r)
				return
			}
			v = Fail("panic", "panic during run: %v", r)
		}
	}()
	return e.Execute(plan, c)
}

// panicOrigin walks the stack of a recovered panic from the panic call outwards and names the first frame that
// is neither the runtime nor a library below the two parties: "library" (filippo.io/age) or "harness" (verif/sim).
func panicOrigin(stack []byte) string {
	seenPanic := false
	for _, l := range strings.Split(string(stack), "\n") {
		if l == "" || strings.HasPrefix(l, "\t") || strings.HasPrefix(l, "goroutine ") {
			continue
		}
		if strings.HasPrefix(l, "panic(") {
			seenPanic = true
			continue
		}
		if !seenPanic {
			continue
		}
		switch {
		case strings.HasPrefix(l, "filippo.io/age"):
			return "library"
		case strings.HasPrefix(l, "verif/sim"):
			return "harness"
		}
	}
	return "library"
}

// Shrink is greedy delta debugging over the engine's candidate list; a
// candidate is kept iff it fails with the same clause.
// Shrink: exec (optional) replaces in-process execution of a candidate.
func Shrink(e Engine, plan interface{}, clause string, budget int, exec func(interface{}) *Verdict) (interface{}, int) {
	steps := 0
	cur := plan
	// (also bounded in wall-clock time: a violation that is a hang costs its whole deadline per candidate)
	stop := time.Now().Add(5 * time.Minute)
	for budget > 0 {
		improved := false
		for _, cand := range e.Shrinks(cur) {
			if budget <= 0 || time.Now().After(stop) {
				budget = 0
				break
			}
			budget--
			var v *Verdict
			if exec != nil {
				v = exec(Clone(e, cand))
			} else {
				c := &Ctx{Stats: NewStats(), Log: NewLog(false), Tier: "shrink"}
				v = SafeExecute(e, Clone(e, cand), c)
			}
			if v != nil && v.Clause == clause {
				if v.Narrow != nil {
					cur = v.Narrow
				} else {
					cur = cand
				}
				steps++
				improved = true
				break
			}
		}
		if !improved {
			break
		}
	}
	return cur, steps
}

// Replay is the replay-file format.
type Replay struct {
	Property string          `json:"property"`
	Engine   string          `json:"engine"`
	Seed     uint64          `json:"seed"`
	Run      uint64          `json:"run"`
	Clause   string          `json:"clause"`
	Detail   string          `json:"detail"`
	LogHash  string          `json:"log_hash"`
	Shrunk   int             `json:"shrink_steps"`
	Plan     json.RawMessage `json:"plan"`
	Original json.RawMessage `json:"original_plan,omitempty"`
	Trace    []string        `json:"trace,omitempty"`
	History  *History        `json:"history,omitempty"`
	Note     string          `json:"note,omitempty"`
}

func sha256Hex(b []byte) string {
	h := sha256.Sum256(b)
	return hex.EncodeToString(h[:8])
}
