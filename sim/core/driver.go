package core

import (
	"bufio"
	"encoding/binary"
	"encoding/json"
	"flag"
	"fmt"
	"os"
	"os/exec"
	"path/filepath"
	"runtime"
	"sort"
	"strconv"
	"strings"
	"sync"
	"time"
)

// Exit codes: 0 held, 1 violation, 2 harness/build/watchdog trouble.

type workerMsg struct {
	Type     string            `json:"type"` // "violation" | "done"
	Replay   *Replay           `json:"replay,omitempty"`
	Runs     uint64            `json:"runs,omitempty"`
	C        map[string]int64  `json:"c,omitempty"`
	Max      map[string]int64  `json:"max,omitempty"`
	SigFile  string            `json:"sigfile,omitempty"`
	Samples  []json.RawMessage `json:"samples,omitempty"`
	TimedOut bool              `json:"timed_out,omitempty"`
	Detail   string            `json:"detail,omitempty"`
}

func envSeed() uint64 {
	if s := os.Getenv("VERIF_SEED"); s != "" {
		if v, err := strconv.ParseUint(s, 10, 64); err == nil {
			return v
		}
		if v, err := strconv.ParseInt(s, 10, 64); err == nil {
			return uint64(v)
		}
	}
	return 1
}

func Main(engines []Engine) {
	if len(os.Args) < 2 {
		fmt.Fprintln(os.Stderr, "usage: agesim run|worker|replay|plan ...")
		os.Exit(2)
	}
	byID := map[string]Engine{}
	for _, e := range engines {
		byID[e.ID()] = e
	}
	switch os.Args[1] {
	case "run":
		os.Exit(cmdRun(byID, os.Args[2:]))
	case "worker":
		os.Exit(cmdWorker(byID, os.Args[2:]))
	case "replay":
		os.Exit(cmdReplay(byID, os.Args[2:]))
	case "plan":
		os.Exit(cmdPlan(byID, os.Args[2:]))
	case "execplan":
		os.Exit(cmdExecPlan(byID, os.Args[2:]))
	case "hashes":
		os.Exit(cmdHashes(byID, os.Args[2:]))
	case "list":
		for _, e := range engines {
			fmt.Println(e.ID(), e.Title())
		}
		os.Exit(0)
	}
	fmt.Fprintln(os.Stderr, "unknown subcommand")
	os.Exit(2)
}

func cmdPlan(byID map[string]Engine, args []string) int {
	fs := flag.NewFlagSet("plan", flag.ExitOnError)
	prop := fs.String("prop", "", "")
	tier := fs.String("tier", "quick", "")
	seed := fs.Uint64("seed", envSeed(), "")
	run := fs.Uint64("run", 0, "")
	fs.Parse(args)
	e := byID[*prop]
	if e == nil {
		return 2
	}
	p := e.Generate(NewRNG(RunSeed(*seed, e.ID(), *run)), *tier, *run)
	b, _ := json.MarshalIndent(p, "", " ")
	fmt.Println(string(b))
	return 0
}

// ---------- worker ----------

// runLimit is the wall-clock cap of one run (AGESIM_RUN_LIMIT_S, default 240 s).
func runLimit() time.Duration {
	if s := os.Getenv("AGESIM_RUN_LIMIT_S"); s != "" {
		if v, err := strconv.Atoi(s); err == nil && v > 0 {
			return time.Duration(v) * time.Second
		}
	}
	return 240 * time.Second
}

func cmdWorker(byID map[string]Engine, args []string) int {
	fs := flag.NewFlagSet("worker", flag.ExitOnError)
	prop := fs.String("prop", "", "")
	tier := fs.String("tier", "quick", "")
	seed := fs.Uint64("seed", 1, "")
	w := fs.Uint64("w", 0, "")
	W := fs.Uint64("W", 1, "")
	runs := fs.Uint64("runs", 1, "")
	deadline := fs.Int64("deadline", 0, "unix seconds; 0 = none")
	tmp := fs.String("tmp", os.TempDir(), "")
	fs.Parse(args)
	e := byID[*prop]
	if e == nil {
		fmt.Fprintln(os.Stderr, "no such engine", *prop)
		return 2
	}
	out := bufio.NewWriter(os.Stdout)
	enc := json.NewEncoder(out)
	var wmu sync.Mutex
	st := NewStats()
	var samples []json.RawMessage
	var done uint64
	nviol := 0
	timedOut := false
	for i := *w; i < *runs; i += *W {
		if *deadline != 0 && time.Now().Unix() >= *deadline {
			timedOut = true
			break
		}
		plan := e.Generate(NewRNG(RunSeed(*seed, e.ID(), i)), *tier, i)
		ctx := &Ctx{Stats: st, Log: NewLog(false), Tier: *tier}
		// watchdog: a run that does not come back is reported (exit 2 upstream), never silently waited for
		runIdx, planJSON := i, PlanJSON(plan)
		wd := time.AfterFunc(runLimit(), func() {
			wmu.Lock()
			enc.Encode(workerMsg{Type: "hang", Runs: runIdx, Samples: []json.RawMessage{planJSON}})
			out.Flush()
			os.Exit(3)
		})
		v := SafeExecute(e, Clone(e, plan), ctx)
		wd.Stop()
		done++
		if len(samples) < 2 && (i/(*W))%97 == 0 {
			samples = append(samples, PlanJSON(plan))
		}
		if v != nil && v.Clause == "harness" {
			wmu.Lock()
			enc.Encode(workerMsg{Type: "harness", Runs: runIdx, Samples: []json.RawMessage{planJSON}, Detail: v.Detail})
			out.Flush()
			wmu.Unlock()
			continue
		}
		if v != nil {
			wd2 := time.AfterFunc(4*runLimit(), func() {
				wmu.Lock()
				enc.Encode(workerMsg{Type: "hang", Runs: runIdx, Samples: []json.RawMessage{planJSON}})
				out.Flush()
				os.Exit(3)
			})
			rp := BuildReplay(e, plan, v, *seed, i, *tier, *w, *W)
			wd2.Stop()
			wmu.Lock()
			enc.Encode(workerMsg{Type: "violation", Replay: rp})
			out.Flush()
			wmu.Unlock()
			nviol++
			if nviol >= 3 {
				break
			}
		}
	}
	// signatures to a file (binary uint64s)
	sf := filepath.Join(*tmp, fmt.Sprintf("sigs-%s-%d-%d.bin", *prop, os.Getpid(), *w))
	f, err := os.Create(sf)
	if err == nil {
		bw := bufio.NewWriter(f)
		var b [8]byte
		for k := range st.Sigs {
			binary.LittleEndian.PutUint64(b[:], k)
			bw.Write(b[:])
		}
		bw.Flush()
		f.Close()
	}
	enc.Encode(workerMsg{Type: "done", Runs: done, C: st.C, Max: st.Max, SigFile: sf, Samples: samples, TimedOut: timedOut})
	out.Flush()
	return 0
}

// History names the earlier runs of the same worker process that a violation needs: state that outlives
// a run (a package-level cache in the code under test) makes a run's outcome depend on the runs before it.
type History struct {
	Tier string   `json:"tier"`
	Runs []uint64 `json:"runs"` // run indices executed, in this order, in the same process before the plan
}

// freshExecute runs the plan (after the given history) in a new process of this binary.
func freshExecute(e Engine, plan interface{}, seed uint64, h *History, c *Ctx) (*Verdict, bool) {
	bin, err := os.Executable()
	if err != nil {
		return nil, false
	}
	v, err := remoteExecute(bin, e.ID(), plan, seed, h, "replay", c)
	if err != nil {
		return nil, false
	}
	return v, true
}

// BuildReplay narrows, shrinks and records a violation. The shrunk plan is confirmed in a fresh process;
// if it only fails after the earlier runs of this worker, the replay file records that history.
func BuildReplay(e Engine, plan interface{}, v *Verdict, seed, run uint64, tier string, w, W uint64) *Replay {
	orig := PlanJSON(plan)
	cur := plan
	clause := v.Clause
	if v.Narrow != nil {
		c := &Ctx{Stats: NewStats(), Log: NewLog(false), Tier: "shrink"}
		if v2 := SafeExecute(e, Clone(e, v.Narrow), c); v2 != nil && v2.Clause == clause {
			cur = v.Narrow
		}
	}
	shrunk, steps := Shrink(e, cur, clause, 400, nil)
	c := &Ctx{Stats: NewStats(), Log: NewLog(true), Tier: "replay"}
	vf := SafeExecute(e, Clone(e, shrunk), c)
	if vf == nil || vf.Clause != clause {
		// shrinking went wrong (should not happen): fall back to the original
		shrunk, steps = plan, 0
		c = &Ctx{Stats: NewStats(), Log: NewLog(true), Tier: "replay"}
		vf = SafeExecute(e, Clone(e, shrunk), c)
		if vf == nil {
			vf = v
		}
	}
	rp := &Replay{Property: e.ID(), Engine: e.Title(), Seed: seed, Run: run, Clause: vf.Clause,
		Detail: vf.Detail, LogHash: c.Log.Sum(), Shrunk: steps, Plan: PlanJSON(shrunk), Original: orig, Trace: c.Log.Text}
	if os.Getenv("AGESIM_NO_FRESH_CONFIRM") != "" {
		return rp
	}
	// does it fail in a process that has done nothing else?
	fc := &Ctx{Stats: NewStats(), Log: NewLog(true), Tier: "replay"}
	if fv, ok := freshExecute(e, shrunk, seed, nil, fc); !ok || (fv != nil && fv.Clause == clause) {
		return rp
	}
	// the shrunk plan needs what this process did before. The original plan alone?
	fc = &Ctx{Stats: NewStats(), Log: NewLog(true), Tier: "replay"}
	if fv, _ := freshExecute(e, plan, seed, nil, fc); fv != nil && fv.Clause == clause {
		fresh := func(cand interface{}) *Verdict {
			cc := &Ctx{Stats: NewStats(), Log: NewLog(false), Tier: "shrink"}
			r, _ := freshExecute(e, cand, seed, nil, cc)
			return r
		}
		shrunk, steps = Shrink(e, plan, clause, 120, fresh)
		fc = &Ctx{Stats: NewStats(), Log: NewLog(true), Tier: "replay"}
		if fv, _ := freshExecute(e, shrunk, seed, nil, fc); fv != nil && fv.Clause == clause {
			rp.Clause, rp.Detail, rp.LogHash, rp.Shrunk, rp.Plan, rp.Trace = fv.Clause, fv.Detail, fc.Log.Sum(), steps, PlanJSON(shrunk), fc.Log.Text
			rp.Note = "shrunk in fresh processes: in the worker that found it, state left by earlier runs made smaller plans fail too"
			return rp
		}
	}
	// it takes the history of this worker process: find a short suffix of it that suffices
	var all []uint64
	for j := w; j < run; j += W {
		all = append(all, j)
	}
	for n := 1; ; n *= 2 {
		if n > len(all) {
			n = len(all)
		}
		h := &History{Tier: tier, Runs: all[len(all)-n:]}
		fc = &Ctx{Stats: NewStats(), Log: NewLog(true), Tier: "replay"}
		if fv, _ := freshExecute(e, plan, seed, h, fc); fv != nil && fv.Clause == clause {
			rp.Clause, rp.Detail, rp.LogHash, rp.Shrunk, rp.Plan, rp.Trace = fv.Clause, fv.Detail, fc.Log.Sum(), 0, orig, fc.Log.Text
			rp.History = h
			rp.Note = fmt.Sprintf("the violation needs state left behind by earlier runs in the same process: replay executes runs %v first", h.Runs)
			return rp
		}
		if n == len(all) {
			break
		}
	}
	rp.Note = "NOT reproduced in a fresh process, neither alone nor after the earlier runs of the worker that found it"
	return rp
}

// ---------- replay ----------

func cmdReplay(byID map[string]Engine, args []string) int {
	if len(args) < 1 {
		return 2
	}
	b, err := os.ReadFile(args[0])
	if err != nil {
		fmt.Fprintln(os.Stderr, err)
		return 2
	}
	var rp Replay
	if err := json.Unmarshal(b, &rp); err != nil {
		fmt.Fprintln(os.Stderr, err)
		return 2
	}
	e := byID[rp.Property]
	if e == nil {
		fmt.Fprintln(os.Stderr, "no engine for", rp.Property)
		return 2
	}
	p := e.NewPlan()
	if err := json.Unmarshal(rp.Plan, p); err != nil {
		fmt.Fprintln(os.Stderr, err)
		return 2
	}
	if rp.Note != "" {
		fmt.Println("replay: note:", rp.Note)
	}
	runHistory(e, rp.Seed, rp.History)
	c := &Ctx{Stats: NewStats(), Log: NewLog(true), Tier: "replay"}
	v := SafeExecute(e, p, c)
	for _, l := range c.Log.Text {
		fmt.Println("  |", l)
	}
	if v == nil {
		fmt.Printf("replay: no violation (recorded clause %q); log_hash=%s\n", rp.Clause, c.Log.Sum())
		return 0
	}
	same := v.Clause == rp.Clause && c.Log.Sum() == rp.LogHash
	fmt.Printf("replay: clause=%q detail=%q log_hash=%s reproduced_exactly=%v\n", v.Clause, v.Detail, c.Log.Sum(), same)
	fmt.Printf("VIOLATION property=%s replay=%s\n", rp.Property, args[0])
	return 1
}

// ---------- known findings ----------

type finding struct {
	fixed    bool
	property string
	clause   string
	match    string
	text     string
}

// KNOWN_FINDINGS.txt lines:
//
//	known: property=<id> clause=<clause> match=<substring of detail> :: what fails
//	fixed: property=<id> <commit> <what failed>
func loadFindings(path string) []finding {
	b, err := os.ReadFile(path)
	if err != nil {
		return nil
	}
	var out []finding
	for _, l := range strings.Split(string(b), "\n") {
		l = strings.TrimSpace(l)
		if strings.HasPrefix(l, "fixed:") {
			out = append(out, finding{fixed: true, text: l})
			continue
		}
		if !strings.HasPrefix(l, "known:") {
			continue
		}
		f := finding{}
		body := strings.TrimSpace(strings.TrimPrefix(l, "known:"))
		head, text, _ := strings.Cut(body, "::")
		f.text = strings.TrimSpace(text)
		for _, kv := range strings.Fields(head) {
			k, v, _ := strings.Cut(kv, "=")
			switch k {
			case "property":
				f.property = v
			case "clause":
				f.clause = v
			case "match":
				f.match = v
			}
		}
		out = append(out, f)
	}
	return out
}

// ---------- run (parent) ----------

func cmdRun(byID map[string]Engine, args []string) int {
	fs := flag.NewFlagSet("run", flag.ExitOnError)
	prop := fs.String("prop", "", "")
	tier := fs.String("tier", "quick", "")
	seed := fs.Uint64("seed", envSeed(), "")
	workers := fs.Int("workers", 0, "")
	runsFlag := fs.Int("runs", 0, "override number of runs")
	budget := fs.Int("budget", 0, "wall-clock cap in seconds (0 = tier default)")
	evidence := fs.String("evidence", "", "evidence file to write")
	replays := fs.String("replays", "replays", "directory for replay files")
	known := fs.String("known", "KNOWN_FINDINGS.txt", "")
	tmp := fs.String("tmp", "", "scratch directory")
	workerBin := fs.String("worker-bin", "", "binary used for workers (default: self)")
	fs.Parse(args)
	e := byID[*prop]
	if e == nil {
		fmt.Fprintln(os.Stderr, "no such engine", *prop)
		return 2
	}
	W := *workers
	if W <= 0 {
		W = runtime.NumCPU()
		if W > 16 {
			W = 16
		}
	}
	runs := e.Runs(*tier)
	if *runsFlag > 0 {
		runs = *runsFlag
	}
	if runs < W {
		W = runs
	}
	cap := *budget
	if cap == 0 {
		cap = 600
		if *tier == "thorough" {
			cap = 3600
		}
	}
	if *tmp == "" {
		d, err := os.MkdirTemp("", "agesim-")
		if err != nil {
			fmt.Fprintln(os.Stderr, err)
			return 2
		}
		*tmp = d
		defer os.RemoveAll(d)
	}
	bin := *workerBin
	if bin == "" {
		bin, _ = os.Executable()
	}
	start := time.Now()
	deadline := start.Add(time.Duration(cap) * time.Second).Unix()
	fmt.Printf("agesim: property=%s tier=%s VERIF_SEED=%d runs=%d workers=%d cap=%ds\n", e.ID(), *tier, *seed, runs, W, cap)

	var mu sync.Mutex
	var wg sync.WaitGroup
	total := NewStats()
	sigs := map[uint64]struct{}{}
	var samples []json.RawMessage
	var viols []*Replay
	var hangs []string
	nHarnessMsgs := 0
	var runsDone uint64
	harness := false
	timedOut := false
	for w := 0; w < W; w++ {
		wg.Add(1)
		go func(w int) {
			defer wg.Done()
			cmd := exec.Command(bin, "worker", "-prop", e.ID(), "-tier", *tier, "-seed", fmt.Sprint(*seed),
				"-w", fmt.Sprint(w), "-W", fmt.Sprint(W), "-runs", fmt.Sprint(runs), "-deadline", fmt.Sprint(deadline), "-tmp", *tmp)
			cmd.Stderr = os.Stderr
			// race-detector reports of a -race build go to files the engine can look at
			raceLog := filepath.Join(*tmp, fmt.Sprintf("race-w%d", w))
			cmd.Env = append(os.Environ(), "GORACE=log_path="+raceLog+" halt_on_error=0 exitcode=0", "AGESIM_RACE_LOG="+raceLog)
			op, err := cmd.StdoutPipe()
			if err != nil {
				mu.Lock()
				harness = true
				mu.Unlock()
				return
			}
			if err := cmd.Start(); err != nil {
				mu.Lock()
				harness = true
				mu.Unlock()
				return
			}
			sc := bufio.NewScanner(op)
			sc.Buffer(make([]byte, 1<<20), 1<<28)
			gotDone := false
			for sc.Scan() {
				var m workerMsg
				if err := json.Unmarshal(sc.Bytes(), &m); err != nil {
					continue
				}
				mu.Lock()
				switch m.Type {
				case "harness":
					harness = true
					if nHarnessMsgs < 5 {
						nHarnessMsgs++
						fmt.Printf("HARNESS property=%s run %d: %s (not a violation)\n", e.ID(), m.Runs, m.Detail)
					}
				case "hang":
					hangs = append(hangs, fmt.Sprintf("run %d plan %s", m.Runs, string(m.Samples[0])))
				case "violation":
					viols = append(viols, m.Replay)
				case "done":
					gotDone = true
					runsDone += m.Runs
					if m.TimedOut {
						timedOut = true
					}
					for k, v := range m.C {
						total.C[k] += v
					}
					for k, v := range m.Max {
						total.SetMax(k, v)
					}
					if b, err := os.ReadFile(m.SigFile); err == nil {
						for i := 0; i+8 <= len(b); i += 8 {
							sigs[binary.LittleEndian.Uint64(b[i:])] = struct{}{}
						}
						os.Remove(m.SigFile)
					}
					if len(samples) < 4 {
						samples = append(samples, m.Samples...)
					}
				}
				mu.Unlock()
			}
			err = cmd.Wait()
			if err != nil || !gotDone {
				fmt.Fprintf(os.Stderr, "agesim: worker %d failed: %v\n", w, err)
				mu.Lock()
				harness = true
				mu.Unlock()
			}
		}(w)
	}
	wg.Wait()
	wall := time.Since(start).Seconds()

	// classify violations against the known-findings file
	findings := loadFindings(*known)
	sort.Slice(viols, func(i, j int) bool { return viols[i].Run < viols[j].Run })
	knownHit := map[int]bool{}
	var fresh []*Replay
	for _, v := range viols {
		matched := false
		for i, f := range findings {
			if f.fixed || f.property != e.ID() {
				continue
			}
			if f.clause == v.Clause && strings.Contains(v.Detail, f.match) {
				knownHit[i] = true
				matched = true
				break
			}
		}
		if !matched {
			fresh = append(fresh, v)
		}
	}
	for i, f := range findings {
		if knownHit[i] {
			fmt.Printf("KNOWN-FINDING: property=%s %s\n", f.property, f.text)
		}
	}
	os.MkdirAll(*replays, 0o755)
	seen := map[string]bool{}
	nrep := 0
	for _, v := range fresh {
		if seen[v.Clause] && nrep >= 3 {
			continue
		}
		seen[v.Clause] = true
		nrep++
		p, _ := filepath.Abs(filepath.Join(*replays, fmt.Sprintf("%s-%d-%d.json", e.ID(), *seed, v.Run)))
		b, _ := json.MarshalIndent(v, "", " ")
		os.WriteFile(p, b, 0o644)
		fmt.Printf("violation: clause=%s detail=%s shrink_steps=%d\n", v.Clause, v.Detail, v.Shrunk)
		fmt.Printf("VIOLATION property=%s replay=%s\n", e.ID(), p)
	}

	// evidence
	if *evidence != "" {
		m := e.Meta()
		fk := map[string]int64{}
		for _, k := range m.FaultKinds {
			fk[k] = total.C[k]
		}
		pr := map[string]int64{}
		for _, k := range m.Probes {
			pr[k] = total.C[k]
		}
		other := map[string]int64{}
		for _, k := range total.Keys() {
			if _, ok := fk[k]; ok {
				continue
			}
			if _, ok := pr[k]; ok {
				continue
			}
			other[k] = total.C[k]
		}
		if len(samples) == 0 {
			samples = append(samples, PlanJSON(e.Generate(NewRNG(RunSeed(*seed, e.ID(), 0)), *tier, 0)))
		}
		if len(samples) > 3 {
			samples = samples[:3]
		}
		cov := map[string]interface{}{
			"evaluations":          total.C["evaluations"],
			"distinct_nontrivial":  len(sigs),
			"rule":                 m.Rule,
			"samples":              samples,
			"runs":                 runsDone,
			"runs_planned":         runs,
			"runs_per_hour":        int64(float64(runsDone) / wall * 3600),
			"evaluations_per_hour": int64(float64(total.C["evaluations"]) / wall * 3600),
			"seeds":                fmt.Sprintf("VERIF_SEED=%d; run i uses sha256(seed/engine/i)[:8], i in [0,%d)", *seed, runs),
			"fault_kinds_fired":    fk,
			"probes_hit":           pr,
			"counters":             other,
			"maxima":               total.Max,
			"real_components":      m.Real,
			"stub_components":      m.Stub,
			"workers":              W,
			"stopped_by_wall_cap":  timedOut,
			"known_findings_hit":   len(knownHit),
		}
		if sim, ok := total.C["sim_time_ms"]; ok {
			cov["simulated_time_s"] = float64(sim) / 1000
		}
		ev := map[string]interface{}{
			"property_id": e.ID(), "tier": *tier, "seed": int64(*seed), "level": m.Level,
			"coverage": cov, "assumptions": m.Assumptions, "wall_s": wall, "violations": len(fresh),
		}
		b, _ := json.MarshalIndent(ev, "", " ")
		os.MkdirAll(filepath.Dir(*evidence), 0o755)
		if err := os.WriteFile(*evidence, append(b, '\n'), 0o644); err != nil {
			fmt.Fprintln(os.Stderr, err)
			return 2
		}
	}
	fmt.Printf("agesim: property=%s runs=%d evaluations=%d distinct=%d wall=%.1fs violations=%d known=%d\n",
		e.ID(), runsDone, total.C["evaluations"], len(sigs), wall, len(fresh), len(knownHit))
	for _, h := range hangs {
		if len(h) > 600 {
			h = h[:600] + "..."
		}
		fmt.Printf("WATCHDOG property=%s a run exceeded %v of wall clock (hang in the code under test or overloaded machine): %s\n", e.ID(), runLimit(), h)
	}
	if len(fresh) > 0 {
		return 1
	}
	if harness || len(hangs) > 0 {
		fmt.Println("agesim: harness trouble (worker failure, watchdog or harness error); not a violation")
		return 2
	}
	return 0
}

// cmdHashes prints, for runs [from,to), the verdict clause and the event-log
// hash: the determinism self-test diffs this output across processes,
// GOMAXPROCS values and process boundaries.
func cmdHashes(byID map[string]Engine, args []string) int {
	fs := flag.NewFlagSet("hashes", flag.ExitOnError)
	prop := fs.String("prop", "", "")
	tier := fs.String("tier", "quick", "")
	seed := fs.Uint64("seed", envSeed(), "")
	from := fs.Uint64("from", 0, "")
	to := fs.Uint64("to", 100, "")
	fs.Parse(args)
	e := byID[*prop]
	if e == nil {
		return 2
	}
	for i := *from; i < *to; i++ {
		plan := e.Generate(NewRNG(RunSeed(*seed, e.ID(), i)), *tier, i)
		c := &Ctx{Stats: NewStats(), Log: NewLog(false), Tier: *tier}
		v := SafeExecute(e, Clone(e, plan), c)
		clause := "-"
		if v != nil {
			clause = v.Clause
		}
		ph := sha256Hex(PlanJSON(plan))
		fmt.Printf("%d plan=%s events=%d log=%s verdict=%s\n", i, ph, c.Log.Len(), c.Log.Sum(), clause)
	}
	return 0
}

// ExecResult is what `execplan` prints: one plan executed in this binary on behalf of another one
// (used when a stage of an engine needs a differently built binary).
type ExecResult struct {
	Clause  string           `json:"clause,omitempty"`
	Detail  string           `json:"detail,omitempty"`
	LogHash string           `json:"log_hash"`
	Trace   []string         `json:"trace,omitempty"`
	C       map[string]int64 `json:"c"`
	Sigs    []uint64         `json:"sigs"`
}

func cmdExecPlan(byID map[string]Engine, args []string) int {
	fs := flag.NewFlagSet("execplan", flag.ExitOnError)
	prop := fs.String("prop", "", "")
	tier := fs.String("tier", "exec", "")
	seed := fs.Uint64("seed", 0, "")
	hist := fs.String("history", "", "JSON History: runs to execute first in this process")
	fs.Parse(args)
	e := byID[*prop]
	if e == nil {
		return 2
	}
	p := e.NewPlan()
	if err := json.NewDecoder(os.Stdin).Decode(p); err != nil {
		fmt.Fprintln(os.Stderr, err)
		return 2
	}
	if *hist != "" {
		var h History
		if err := json.Unmarshal([]byte(*hist), &h); err != nil {
			fmt.Fprintln(os.Stderr, err)
			return 2
		}
		runHistory(e, *seed, &h)
	}
	c := &Ctx{Stats: NewStats(), Log: NewLog(true), Tier: *tier}
	v := SafeExecute(e, p, c)
	r := ExecResult{LogHash: c.Log.Sum(), Trace: c.Log.Text, C: c.Stats.C}
	for k := range c.Stats.Sigs {
		r.Sigs = append(r.Sigs, k)
	}
	if v != nil {
		r.Clause, r.Detail = v.Clause, v.Detail
	}
	json.NewEncoder(os.Stdout).Encode(r)
	return 0
}

// RemoteExecute runs a plan in another binary (execplan) and merges its statistics.
func RemoteExecute(bin, prop string, plan interface{}, c *Ctx) (*Verdict, error) {
	return remoteExecute(bin, prop, plan, 0, nil, "exec", c)
}

// runHistory re-executes earlier runs (regenerated from the seed) in this process; their verdicts are not judged.
func runHistory(e Engine, seed uint64, h *History) {
	if h == nil {
		return
	}
	for _, j := range h.Runs {
		plan := e.Generate(NewRNG(RunSeed(seed, e.ID(), j)), h.Tier, j)
		SafeExecute(e, plan, &Ctx{Stats: NewStats(), Log: NewLog(false), Tier: h.Tier})
	}
}

func remoteExecute(bin, prop string, plan interface{}, seed uint64, h *History, tier string, c *Ctx) (*Verdict, error) {
	args := []string{"execplan", "-prop", prop, "-tier", tier}
	if h != nil {
		hb, _ := json.Marshal(h)
		args = append(args, "-seed", fmt.Sprint(seed), "-history", string(hb))
	}
	cmd := exec.Command(bin, args...)
	cmd.Stdin = strings.NewReader(string(PlanJSON(plan)))
	cmd.Stderr = os.Stderr
	var outBuf strings.Builder
	cmd.Stdout = &outBuf
	if err := cmd.Start(); err != nil {
		return nil, err
	}
	done := make(chan error, 1)
	go func() { done <- cmd.Wait() }()
	select {
	case err := <-done:
		if err != nil {
			return nil, fmt.Errorf("execplan in %s: %v", bin, err)
		}
	case <-time.After(runLimit() / 2):
		cmd.Process.Kill()
		<-done
		return nil, fmt.Errorf("execplan in %s did not finish within %v (hang)", bin, runLimit()/2)
	}
	out := []byte(outBuf.String())
	var r ExecResult
	if err := json.Unmarshal(out, &r); err != nil {
		return nil, fmt.Errorf("execplan output: %v", err)
	}
	for k, v := range r.C {
		c.Stats.C[k] += v
	}
	for _, k := range r.Sigs {
		c.Stats.Sigs[k] = struct{}{}
	}
	for _, l := range r.Trace {
		c.Log.Add("%s", l)
	}
	if r.Clause != "" {
		return &Verdict{Clause: r.Clause, Detail: r.Detail}, nil
	}
	return nil, nil
}
