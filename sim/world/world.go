// Package world holds the fixture pool and builds real age recipients and
// identities (through the public constructors only) next to the reference
// model's view of the same keys.
package world

import (
	"crypto/ed25519"
	"crypto/rsa"
	"crypto/sha256"
	"embed"
	"encoding/pem"
	"fmt"
	"math/big"
	"strings"
	"sync"

	"filippo.io/age"
	"filippo.io/age/agessh"
	"golang.org/x/crypto/ssh"

	"verif/sim/ref"
)

//go:embed fixtures/*
var fixtures embed.FS

func Fixture(name string) []byte {
	b, err := fixtures.ReadFile("fixtures/" + name)
	if err != nil {
		panic(err)
	}
	return b
}

const (
	NX25519 = 8
	NEd     = 8 // keys 5..7 have SSH tags containing '/' or '+' (alphabet-sensitive)
	NRSA    = 5
	NPass   = 10
)

// (passphrases are used verbatim as scrypt passwords: trailing newline, CR LF, leading space and NUL-free binary included)
var Passphrases = []string{"correct horse", "Correct horse", "correct horse ", "p", "pässwörd-ü", "another-passphrase-0123456789", "hunter2\n", "line ending\r\n", " leading space", "tab\tinside"}

func X25519Secret(k int) []byte {
	h := sha256.Sum256([]byte(fmt.Sprintf("verif-x25519-%d", k)))
	return h[:]
}

func EdKey(k int) ed25519.PrivateKey {
	h := sha256.Sum256([]byte(fmt.Sprintf("verif-ed25519-%d", k)))
	return ed25519.NewKeyFromSeed(h[:])
}

var rsaOnce sync.Once
var rsaKeys []*rsa.PrivateKey

func RSAKey(k int) *rsa.PrivateKey {
	rsaOnce.Do(func() {
		for i := 0; i < NRSA; i++ {
			raw, err := ssh.ParseRawPrivateKey(Fixture(fmt.Sprintf("rsa%d.pem", i)))
			if err != nil {
				panic(err)
			}
			rsaKeys = append(rsaKeys, raw.(*rsa.PrivateKey))
		}
	})
	return rsaKeys[k]
}

// Key names one fixture key: T in {"x","s","e","r"} (X25519, scrypt, ssh-ed25519, ssh-rsa).
type Key struct {
	T  string `json:"t"`
	K  int    `json:"k"`
	WF int    `json:"wf,omitempty"` // scrypt work factor (recipient) / max work factor (identity)
}

func (k Key) String() string { return fmt.Sprintf("%s%d", k.T, k.K) }

func must(err error) {
	if err != nil {
		panic(err)
	}
}

// Recipient builds the real age recipient.
func Recipient(k Key) age.Recipient {
	switch k.T {
	case "x":
		r, err := age.ParseX25519Recipient(ref.Bech32Encode("age", ref.X25519Public(X25519Secret(k.K))))
		must(err)
		return r
	case "s":
		r, err := age.NewScryptRecipient(Passphrases[k.K])
		must(err)
		wf := k.WF
		if wf == 0 {
			wf = 2
		}
		r.SetWorkFactor(wf)
		return r
	case "e":
		pk, err := ssh.NewPublicKey(EdKey(k.K).Public())
		must(err)
		r, err := agessh.NewEd25519Recipient(pk)
		must(err)
		return r
	case "r":
		pk, err := ssh.NewPublicKey(&RSAKey(k.K).PublicKey)
		must(err)
		r, err := agessh.NewRSARecipient(pk)
		must(err)
		return r
	}
	panic("world: bad key type " + k.T)
}

// Identity builds the real age identity.
func Identity(k Key) age.Identity {
	switch k.T {
	case "x":
		i, err := age.ParseX25519Identity(strings.ToUpper(ref.Bech32Encode("AGE-SECRET-KEY-", X25519Secret(k.K))))
		must(err)
		return i
	case "s":
		i, err := age.NewScryptIdentity(Passphrases[k.K])
		must(err)
		if k.WF != 0 {
			i.SetMaxWorkFactor(k.WF)
		}
		return i
	case "e":
		i, err := agessh.NewEd25519Identity(EdKey(k.K))
		must(err)
		return i
	case "r":
		i, err := agessh.NewRSAIdentity(RSAKey(k.K))
		must(err)
		return i
	}
	panic("world: bad key type " + k.T)
}

// RefUnwrapper is the reference model's identity for the same key.
func RefUnwrapper(k Key) ref.Unwrapper {
	switch k.T {
	case "x":
		return ref.ByX25519(X25519Secret(k.K))
	case "s":
		wf := k.WF
		if wf == 0 {
			wf = 22
		}
		return ref.ByScrypt(Passphrases[k.K], wf)
	case "e":
		return ref.ByEd25519(EdKey(k.K))
	case "r":
		return ref.ByRSA(RSAKey(k.K))
	}
	panic("world: bad key type " + k.T)
}

// ---------- the same keys through the text parsers ----------

var pemOnce sync.Once
var edPEM [][]byte

func edPrivatePEM(k int) []byte {
	pemOnce.Do(func() {
		// (marshalling draws padding check values from crypto/rand: done once, never under a tape)
		for i := 0; i < NEd; i++ {
			blk, err := ssh.MarshalPrivateKey(EdKey(i), "")
			must(err)
			edPEM = append(edPEM, pem.EncodeToMemory(blk))
		}
	})
	return edPEM[k]
}

// keyFileText lays out lines as a key/recipients file in one of three shapes; it returns the text and the
// index of "ours" among the parsed entries.
func keyFileText(ours, other string, via int) (string, int) {
	switch via {
	case 1:
		return "# a comment\n\n" + other + "\n\n# another\n" + ours + "\n\n", 1
	case 2:
		return "# a comment\r\n\r\n" + other + "\r\n" + ours + "\r\n", 1
	default:
		return ours + "\n" + other, 0 // no final newline
	}
}

// RecipientVia builds the recipient through the text parsers the CLI and applications use
// (age.ParseRecipients, agessh.ParseRecipient) when via > 0; via == 0 is Recipient.
func RecipientVia(k Key, via int) age.Recipient {
	if via == 0 || k.T == "s" {
		return Recipient(k)
	}
	switch k.T {
	case "x":
		ours := ref.Bech32Encode("age", ref.X25519Public(X25519Secret(k.K)))
		other := ref.Bech32Encode("age", ref.X25519Public(X25519Secret((k.K+1)%NX25519)))
		text, idx := keyFileText(ours, other, via)
		rs, err := age.ParseRecipients(strings.NewReader(text))
		if err != nil || len(rs) != 2 {
			panic(fmt.Sprintf("age.ParseRecipients returned %d recipients and error %v for a file with 2 recipients: %q", len(rs), err, text))
		}
		return rs[idx]
	case "e", "r":
		var pk ssh.PublicKey
		var err error
		if k.T == "e" {
			pk, err = ssh.NewPublicKey(EdKey(k.K).Public())
		} else {
			pk, err = ssh.NewPublicKey(&RSAKey(k.K).PublicKey)
		}
		must(err)
		line := strings.TrimSpace(string(ssh.MarshalAuthorizedKey(pk)))
		switch via {
		case 1:
			line += " user@host"
		case 2:
			line += " a comment with spaces\n"
		}
		r, err := agessh.ParseRecipient(line)
		must(err)
		return r
	}
	panic("world: bad key type " + k.T)
}

// IdentityVia: age.ParseIdentities / agessh.ParseIdentity (unencrypted PEM) when via > 0.
func IdentityVia(k Key, via int) age.Identity {
	if via == 0 || k.T == "s" {
		return Identity(k)
	}
	switch k.T {
	case "x":
		ours := strings.ToUpper(ref.Bech32Encode("AGE-SECRET-KEY-", X25519Secret(k.K)))
		other := strings.ToUpper(ref.Bech32Encode("AGE-SECRET-KEY-", X25519Secret((k.K+1)%NX25519)))
		text, idx := keyFileText(ours, other, via)
		ids, err := age.ParseIdentities(strings.NewReader(text))
		if err != nil || len(ids) != 2 {
			panic(fmt.Sprintf("age.ParseIdentities returned %d identities and error %v for a file with 2 keys", len(ids), err))
		}
		return ids[idx]
	case "e":
		i, err := agessh.ParseIdentity(edPrivatePEM(k.K))
		must(err)
		return i
	case "r":
		i, err := agessh.ParseIdentity(Fixture(fmt.Sprintf("rsa%d.pem", k.K)))
		must(err)
		return i
	}
	panic("world: bad key type " + k.T)
}

func SameKey(a, b Key) bool { return a.T == b.T && a.K == b.K }

// ---------- sim-owned recipients / identities ----------

// GreaseRecipient emits unknown-type stanzas (and no labels).
type GreaseRecipient struct {
	N       int // number of stanzas
	BodyLen int
	Tag     int
	ArgLen  int  // >0: an extra argument of this many characters
	Append  int  // >0: Wrap appends this many bytes to the file-key slice it received
	NArgs   int  // >0: this many further short arguments
	Bare    bool // no arguments at all
	Dash    int  // "---" inside the stanza line: 1 extra argument "slot---7", 2 in the type, 3 an argument "---"
}

// AppendSink keeps the appended slice alive.
var AppendSink []byte

func (g *GreaseRecipient) Stanzas() []*age.Stanza {
	var out []*age.Stanza
	for i := 0; i < g.N; i++ {
		body := make([]byte, g.BodyLen)
		for j := range body {
			body[j] = byte(g.Tag*31 + i*7 + j)
		}
		st := &age.Stanza{Type: fmt.Sprintf("grease-%d-%d", g.Tag, i), Args: []string{"a", fmt.Sprint(i)}, Body: body}
		if g.ArgLen > 0 {
			st.Args = append(st.Args, strings.Repeat("Z", g.ArgLen))
		}
		for j := 0; j < g.NArgs; j++ {
			st.Args = append(st.Args, fmt.Sprintf("k%d", j))
		}
		if g.Bare {
			st.Args = nil
		}
		switch g.Dash {
		case 1:
			st.Args = append(st.Args, "slot---7")
		case 2:
			st.Type = fmt.Sprintf("grease---%d-%d", g.Tag, i)
		case 3:
			st.Args = append(st.Args, "---")
		}
		out = append(out, st)
	}
	return out
}

func (g *GreaseRecipient) Wrap(fileKey []byte) ([]*age.Stanza, error) {
	if g.Append > 0 {
		ctx := make([]byte, g.Append)
		for i := range ctx {
			ctx[i] = 0xEE
		}
		AppendSink = append(fileKey, ctx...) // "message = file key || context": must not reach anything of the caller's
	}
	return g.Stanzas(), nil
}

// LoggingIdentity records Unwrap calls in order.
type LoggingIdentity struct {
	Inner age.Identity
	Name  string
	Trace *[]string
}

func (l *LoggingIdentity) Unwrap(st []*age.Stanza) ([]byte, error) {
	*l.Trace = append(*l.Trace, l.Name)
	return l.Inner.Unwrap(st)
}

// BareRSAIdentity builds an RSA identity from a private key given as plain numbers (no precomputed CRT
// values), a fresh copy each time: a legal argument of agessh.NewRSAIdentity.
func BareRSAIdentity(k int) age.Identity {
	src := RSAKey(k)
	key := &rsa.PrivateKey{PublicKey: rsa.PublicKey{N: new(big.Int).Set(src.N), E: src.E}, D: new(big.Int).Set(src.D)}
	for _, p := range src.Primes {
		key.Primes = append(key.Primes, new(big.Int).Set(p))
	}
	i, err := agessh.NewRSAIdentity(key)
	must(err)
	return i
}
