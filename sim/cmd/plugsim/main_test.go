//go:build go1.25

//go:debug asynctimerchan=0

// plugsim is built with `go test -c`: testing/synctest needs a *testing.T, so
// the simulator driver is hosted inside one test function.
package main

import (
	"os"
	"testing"

	"verif/sim/core"
	"verif/sim/plug"
)

var saved []string

func TestMain(m *testing.M) {
	saved = os.Args[1:]
	os.Args = []string{os.Args[0], "-test.run=^TestSim$", "-test.timeout=0"}
	os.Exit(m.Run())
}

func TestSim(t *testing.T) {
	plug.T = t
	os.Args = append([]string{os.Args[0]}, saved...)
	core.Main([]core.Engine{plug.Engine{}})
}
