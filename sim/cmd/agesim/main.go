package main

import (
	"encoding/json"
	"fmt"
	"os"
	"path/filepath"

	"verif/sim/core"
	"verif/sim/engines"
)

func main() {
	if len(os.Args) > 2 && os.Args[1] == "mkcorpus" {
		dir := os.Args[2]
		es, stored := engines.MakeCorpus()
		for name, b := range stored {
			if err := os.WriteFile(filepath.Join(dir, name), b, 0o644); err != nil {
				panic(err)
			}
		}
		b, _ := json.MarshalIndent(es, "", " ")
		if err := os.WriteFile(filepath.Join(dir, "manifest.json"), append(b, '\n'), 0o644); err != nil {
			panic(err)
		}
		fmt.Println("corpus entries:", len(es), "stored files:", len(stored))
		return
	}
	core.Main(engines.All())
}
