package main

import (
	"verif/sim/core"
	"verif/sim/engines"
)

func main() {
	core.Main(engines.All())
}
