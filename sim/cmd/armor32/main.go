// Command armor32 drives the real armor writer with a seeded sequence of Write calls over a stream long
// enough to pass 2^31 output columns, and checks every byte that reaches the destination as it arrives. It is
// built for a 32-bit GOARCH (where int is 32 bits wide) by ./check and run by the C08 engine, thorough tier.
//
//	armor32 <seed> <total MiB>      prints one JSON line, exit status 0 whatever the verdict
package main

import (
	"bytes"
	"encoding/base64"
	"encoding/json"
	"fmt"
	"os"
	"strconv"

	"filippo.io/age/armor"
)

type rng struct{ s uint64 }

func (r *rng) u64() uint64 {
	r.s += 0x9e3779b97f4a7c15
	z := r.s
	z = (z ^ (z >> 30)) * 0xbf58476d1ce4e5b9
	z = (z ^ (z >> 27)) * 0x94d049bb133111eb
	return z ^ (z >> 31)
}
func (r *rng) intn(n int) int { return int(r.u64() % uint64(n)) }

// pattern is the plaintext byte at stream offset i.
func pattern(seed uint64, i int64) byte {
	x := uint64(i)*0x9e3779b97f4a7c15 + seed
	return byte(x>>56) ^ byte(i)
}

const begin = "-----BEGIN AGE ENCRYPTED FILE-----"
const end = "-----END AGE ENCRYPTED FILE-----"

// checker is the destination: a strict streaming de-armorer written against the format text, comparing what
// it decodes with the pattern.
type checker struct {
	seed     uint64
	line     []byte
	lines    int64
	out      int64 // bytes received
	decoded  int64
	sawShort bool
	sawEnd   bool
	bad      string
}

func (c *checker) fail(f string, a ...interface{}) {
	if c.bad == "" {
		c.bad = fmt.Sprintf(f, a...)
	}
}

func (c *checker) endLine() {
	l := c.line
	c.line = c.line[:0]
	defer func() { c.lines++ }()
	switch {
	case c.sawEnd:
		c.fail("output line %d after the END line", c.lines)
	case c.lines == 0:
		if string(l) != begin {
			c.fail("first line is %q", l)
		}
	case string(l) == end:
		c.sawEnd = true
	default:
		if c.sawShort {
			c.fail("body line %d follows a line shorter than 64 columns", c.lines)
			return
		}
		if len(l) > 64 || len(l) == 0 {
			c.fail("body line %d (output offset %d, after %d plaintext bytes) has %d columns", c.lines, c.out, c.decoded, len(l))
			return
		}
		if len(l) < 64 {
			c.sawShort = true
		}
		var buf [48]byte
		n, err := base64.StdEncoding.Strict().Decode(buf[:], l)
		if err != nil {
			c.fail("body line %d: %v", c.lines, err)
			return
		}
		for i := 0; i < n; i++ {
			if buf[i] != pattern(c.seed, c.decoded+int64(i)) {
				c.fail("body line %d decodes to other bytes than were written at plaintext offset %d", c.lines, c.decoded+int64(i))
				return
			}
		}
		c.decoded += int64(n)
	}
}

func (c *checker) Write(p []byte) (int, error) {
	n := len(p)
	for len(p) > 0 && c.bad == "" {
		i := bytes.IndexByte(p, '\n')
		if i < 0 {
			c.line = append(c.line, p...)
			c.out += int64(len(p))
			if len(c.line) > 200 {
				c.fail("line %d (output offset %d, after %d plaintext bytes) is longer than 200 columns", c.lines, c.out, c.decoded)
			}
			break
		}
		c.line = append(c.line, p[:i]...)
		c.out += int64(i + 1)
		c.endLine()
		p = p[i+1:]
	}
	return n, nil // the destination itself never fails here
}

func main() {
	seed, _ := strconv.ParseUint(os.Args[1], 10, 64)
	mib, _ := strconv.Atoi(os.Args[2])
	total := int64(mib) << 20
	r := &rng{s: seed}
	total += int64(r.intn(1 << 20)) // not a multiple of anything
	c := &checker{seed: seed}
	w := armor.NewWriter(c)
	buf := make([]byte, 3<<20)
	var off int64
	writes := 0
	res := map[string]interface{}{"int_bits": strconv.IntSize}
	mode := 0
	for off < total && c.bad == "" {
		if writes%64 == 0 {
			mode = r.intn(8)
		}
		var n int
		switch mode {
		case 0:
			n = 1 + r.intn(100)
		case 1:
			n = 1 + r.intn(4096)
		case 2:
			n = 65536 + 16 // what the payload writer hands over
		default:
			n = 1<<20 + r.intn(2<<20)
		}
		if int64(n) > total-off {
			n = int(total - off)
		}
		for i := 0; i < n; i++ {
			buf[i] = pattern(seed, off+int64(i))
		}
		m, err := w.Write(buf[:n])
		if err != nil || m != n {
			c.fail("Write #%d of %d bytes at plaintext offset %d returned (%d, %v)", writes, n, off, m, err)
			break
		}
		for i := 0; i < n; i += 4099 {
			buf[i] ^= 0xff // the caller reuses its buffer
		}
		off += int64(n)
		writes++
	}
	if c.bad == "" {
		if err := w.Close(); err != nil {
			c.fail("Close: %v", err)
		}
	}
	if c.bad == "" {
		switch {
		case len(c.line) != 0:
			c.fail("output does not end with a newline")
		case !c.sawEnd:
			c.fail("no END line")
		case c.decoded != total:
			c.fail("armor holds %d bytes, %d were written", c.decoded, total)
		}
	}
	res["ok"] = c.bad == ""
	res["detail"] = c.bad
	res["plaintext_bytes"] = off
	res["output_bytes"] = c.out
	res["writes"] = writes
	json.NewEncoder(os.Stdout).Encode(res)
}
