// astyield copies a checkout of filippo.io/age to a scratch directory and inserts a
// call to simyield.Y() before every statement of the library's function bodies, so
// that the C20 task scheduler can switch tasks at statement granularity. The copy
// is never written back; /repo is not touched.
//
//	astyield <repo> <dst>
package main

import (
	"bytes"
	"fmt"
	"go/ast"
	"go/format"
	"go/parser"
	"go/token"
	"io/fs"
	"os"
	"path/filepath"
	"strings"
)

// files whose functions get yields (library code that runs on behalf of a caller task)
var nHot int

var targets = []string{
	"age.go", "primitives.go", "x25519.go", "scrypt.go",
	"agessh/agessh.go",
	"internal/stream/stream.go", "internal/format/format.go", "armor/armor.go",
}

const hookPkg = `// Package simyield exists only in scratch copies made by /verif/sim/cmd/astyield.
package simyield

// Hook is called before every statement of the instrumented library code; hot says that the statement
// belongs to a method of a key object (a type whose name contains Identity or Recipient), i.e. to code
// that works on state callers may share.
var Hook func(hot bool)

func Y() {
	if h := Hook; h != nil {
		h(false)
	}
}

func H() {
	if h := Hook; h != nil {
		h(true)
	}
}
`

func main() {
	if len(os.Args) != 3 {
		fmt.Fprintln(os.Stderr, "usage: astyield <repo> <dst>")
		os.Exit(2)
	}
	src, dst := os.Args[1], os.Args[2]
	if err := copyTree(src, dst); err != nil {
		fmt.Fprintln(os.Stderr, err)
		os.Exit(2)
	}
	if err := os.MkdirAll(filepath.Join(dst, "simyield"), 0o755); err != nil {
		panic(err)
	}
	if err := os.WriteFile(filepath.Join(dst, "simyield", "simyield.go"), []byte(hookPkg), 0o644); err != nil {
		panic(err)
	}
	total := 0
	for _, t := range targets {
		n, err := instrument(filepath.Join(dst, t))
		if err != nil {
			fmt.Fprintln(os.Stderr, t, err)
			os.Exit(2)
		}
		total += n
	}
	fmt.Printf("astyield: %d yield points inserted in %d files, %d of them in methods of key objects\n", total, len(targets), nHot)
}

func copyTree(src, dst string) error {
	return filepath.WalkDir(src, func(p string, d fs.DirEntry, err error) error {
		if err != nil {
			return err
		}
		rel, _ := filepath.Rel(src, p)
		if rel == ".git" || strings.HasPrefix(rel, ".git"+string(os.PathSeparator)) || rel == "SEED" {
			if d.IsDir() {
				return filepath.SkipDir
			}
			return nil
		}
		out := filepath.Join(dst, rel)
		if d.IsDir() {
			return os.MkdirAll(out, 0o755)
		}
		if !d.Type().IsRegular() {
			return nil
		}
		b, err := os.ReadFile(p)
		if err != nil {
			return err
		}
		return os.WriteFile(out, b, 0o644)
	})
}

func yieldStmt(hot bool) ast.Stmt {
	name := "Y"
	if hot {
		name = "H"
	}
	return &ast.ExprStmt{X: &ast.CallExpr{Fun: &ast.SelectorExpr{X: ast.NewIdent("simyield"), Sel: ast.NewIdent(name)}}}
}

// receiverIsKeyObject: a method of a recipient or identity type.
func receiverIsKeyObject(fd *ast.FuncDecl) bool {
	if fd.Recv == nil || len(fd.Recv.List) == 0 {
		return false
	}
	t := fd.Recv.List[0].Type
	if st, ok := t.(*ast.StarExpr); ok {
		t = st.X
	}
	id, ok := t.(*ast.Ident)
	return ok && (strings.Contains(id.Name, "Identity") || strings.Contains(id.Name, "Recipient"))
}

func instrument(path string) (int, error) {
	fset := token.NewFileSet()
	f, err := parser.ParseFile(fset, path, nil, parser.ParseComments)
	if err != nil {
		return 0, err
	}
	n := 0
	hot := false
	var addTo func(list []ast.Stmt) []ast.Stmt
	addTo = func(list []ast.Stmt) []ast.Stmt {
		var out []ast.Stmt
		for _, s := range list {
			out = append(out, yieldStmt(hot))
			n++
			if hot {
				nHot++
			}
			out = append(out, s)
		}
		return out
	}
	visit := func(node ast.Node) bool {
		switch x := node.(type) {
		case *ast.BlockStmt:
			if x != nil {
				// do not put statements between the clauses of a switch/select body
				x.List = addToBlock(x.List, addTo)
			}
		case *ast.CaseClause:
			x.Body = addTo(x.Body)
		case *ast.CommClause:
			x.Body = addTo(x.Body)
		}
		return true
	}
	for _, d := range f.Decls {
		fd, ok := d.(*ast.FuncDecl)
		hot = ok && receiverIsKeyObject(fd)
		ast.Inspect(d, visit)
	}
	// import
	imp := &ast.ImportSpec{Path: &ast.BasicLit{Kind: token.STRING, Value: `"filippo.io/age/simyield"`}}
	added := false
	for _, d := range f.Decls {
		if gd, ok := d.(*ast.GenDecl); ok && gd.Tok == token.IMPORT {
			gd.Specs = append(gd.Specs, imp)
			if !gd.Lparen.IsValid() {
				gd.Lparen = gd.Pos()
				gd.Rparen = gd.End()
			}
			added = true
			break
		}
	}
	if !added {
		f.Decls = append([]ast.Decl{&ast.GenDecl{Tok: token.IMPORT, Specs: []ast.Spec{imp}}}, f.Decls...)
	}
	var buf bytes.Buffer
	// comments are dropped: positions of inserted nodes would otherwise scramble them
	f.Comments = nil
	if err := format.Node(&buf, fset, f); err != nil {
		return 0, err
	}
	return n, os.WriteFile(path, buf.Bytes(), 0o644)
}

// addToBlock instruments a block unless it is the body of a switch/select (whose
// elements are clauses, handled separately).
func addToBlock(list []ast.Stmt, addTo func([]ast.Stmt) []ast.Stmt) []ast.Stmt {
	for _, s := range list {
		switch s.(type) {
		case *ast.CaseClause, *ast.CommClause:
			return list
		}
	}
	return addTo(list)
}
