package engines

import "verif/sim/core"

func All() []core.Engine {
	return []core.Engine{C01{}, C02{}, C03{}, C05{}, C06{}, C08{}, C11{}, C12{}, C13{}, C15{}, C19{}, C20{}}
}
