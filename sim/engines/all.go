package engines

import "verif/sim/core"

func All() []core.Engine {
	return []core.Engine{C02{}, C03{}, C08{}, C13{}}
}
