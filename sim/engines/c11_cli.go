package engines

import (
	"bytes"
	"fmt"
	"os"
	"os/exec"
	"path/filepath"
	"strings"
	"syscall"
	"time"

	"verif/sim/core"
	"verif/sim/ref"
	"verif/sim/world"
)

// C11 at the command line: the destination of `age -e` is the -o file or standard output. A list the library
// refuses must leave it untouched there too, whatever the command does around the library call (armor writer,
// lazily opened output file, deferred clean-up).
//
// The plugin recipients are real plugin processes: two small shell scripts speaking recipient-v1, one declaring
// the label "postquantum", one declaring none, and one name for which no binary exists (its wrap fails).

type C11CLI struct {
	Recips   []string `json:"recips"`        // "x<k>" | "plug-labels" | "plug-plain" | "plug-missing"
	Via      []int    `json:"via,omitempty"` // per recipient: 0 = -r on the command line, 1 or 2 = a line of recipients file 1 or 2 (-R)
	Armor    bool     `json:"armor"`
	Out      string   `json:"out"`                    // "file" | "stdout"
	PreExist bool     `json:"pre_existing,omitempty"` // out=file: the file exists before, with other content
	PLen     int      `json:"plen"`
}

const c11PluginScript = `#!/bin/sh
# recipient-v1 for the simulator: take everything the client sends, then answer with one stanza%s
while IFS= read -r line; do [ "$line" = "-> done" ] && break; done
printf -- '-> recipient-stanza 0 sim AAAA\nQUFB\n%s-> done\n\n'
cat >/dev/null
`

func genC11CLI(r *core.RNG) *C11CLI {
	p := &C11CLI{Armor: r.Bool(), Out: []string{"file", "stdout"}[r.Intn(2)], PLen: r.Pick(0, 1, 100, 70000)}
	p.PreExist = p.Out == "file" && r.Chance(1, 3)
	n := r.Range(1, 4)
	for i := 0; i < n; i++ {
		switch r.Intn(6) {
		case 0, 1:
			p.Recips = append(p.Recips, fmt.Sprintf("x%d", r.Intn(world.NX25519)))
		case 2, 3:
			p.Recips = append(p.Recips, []string{"plug-labels", "plug-labels-msg"}[r.Intn(2)])
		case 4:
			p.Recips = append(p.Recips, []string{"plug-plain", "plug-plain-msg"}[r.Intn(2)])
		default:
			p.Recips = append(p.Recips, "plug-missing")
		}
	}
	if r.Chance(1, 2) {
		for range p.Recips {
			p.Via = append(p.Via, r.Pick(0, 0, 1, 1, 2))
		}
	}
	return p
}

func (e C11) execCLI(p *C11CLI, c *core.Ctx) *core.Verdict {
	ageBin := os.Getenv("AGE_BIN")
	if ageBin == "" {
		return core.Fail("harness", "AGE_BIN not set (./check builds the real binaries for C11)")
	}
	dir, err := os.MkdirTemp("", "c11cli-")
	if err != nil {
		return core.Fail("harness", "%v", err)
	}
	defer os.RemoveAll(dir)
	bin := filepath.Join(dir, "bin")
	os.Mkdir(bin, 0o755)
	os.WriteFile(filepath.Join(bin, "age-plugin-simlabels"), []byte(fmt.Sprintf(c11PluginScript, " and the label postquantum", `-> labels postquantum\n\n`)), 0o755)
	os.WriteFile(filepath.Join(bin, "age-plugin-simplain"), []byte(fmt.Sprintf(c11PluginScript, "", "")), 0o755)
	// the same two, talking to the user first (a msg command, body "contacting token")
	msg := `-> msg\nY29udGFjdGluZyB0b2tlbg\n`
	os.WriteFile(filepath.Join(bin, "age-plugin-simlabelsmsg"), []byte(strings.Replace(fmt.Sprintf(c11PluginScript, " and the label postquantum", `-> labels postquantum\n\n`), "printf -- '", "printf -- '"+msg, 1)), 0o755)
	os.WriteFile(filepath.Join(bin, "age-plugin-simplainmsg"), []byte(strings.Replace(fmt.Sprintf(c11PluginScript, "", ""), "printf -- '", "printf -- '"+msg, 1)), 0o755)
	// model
	labelled, unlabelled, missing := 0, 0, 0
	argv := []string{ageBin, "-e"}
	if p.Armor {
		argv = append(argv, "-a")
	}
	files := map[int]string{}
	for i, r := range p.Recips {
		var text string
		switch r {
		case "plug-labels":
			labelled++
			text = ref.Bech32Encode("age1simlabels", []byte("simulated recipient"))
		case "plug-labels-msg":
			labelled++
			text = ref.Bech32Encode("age1simlabelsmsg", []byte("simulated recipient"))
		case "plug-plain-msg":
			unlabelled++
			text = ref.Bech32Encode("age1simplainmsg", []byte("simulated recipient"))
		case "plug-plain":
			unlabelled++
			text = ref.Bech32Encode("age1simplain", []byte("simulated recipient"))
		case "plug-missing":
			missing++
			text = ref.Bech32Encode("age1simmissing", []byte("simulated recipient"))
		default:
			var k int
			fmt.Sscanf(r[1:], "%d", &k)
			unlabelled++
			text = cliRecipientString(world.Key{T: "x", K: k})
		}
		if i < len(p.Via) && p.Via[i] > 0 {
			if files[p.Via[i]] == "" {
				c.Stats.Inc("probe.cli_recipients_file")
				files[p.Via[i]] = "# recipients file\n"
			}
			files[p.Via[i]] += text + "\n"
		} else {
			argv = append(argv, "-r", text)
		}
	}
	for _, n := range []int{1, 2} {
		if files[n] != "" {
			name := filepath.Join(dir, fmt.Sprintf("recipients%d.txt", n))
			os.WriteFile(name, []byte(files[n]), 0o644)
			argv = append(argv, "-R", name)
		}
	}
	refused := missing > 0 || (labelled > 0 && unlabelled > 0)
	out := filepath.Join(dir, "out.age")
	before := []byte("what was here before\n")
	if p.PreExist {
		os.WriteFile(out, before, 0o644)
	}
	if p.Out == "file" {
		argv = append(argv, "-o", out)
	}
	cmd := exec.Command(argv[0], argv[1:]...)
	cmd.Dir = dir
	cmd.Env = []string{"PATH=" + bin + ":/usr/bin:/bin", "HOME=" + dir, "TZ=UTC", "LANG=C"}
	cmd.Stdin = bytes.NewReader(core.Pattern(uint64(p.PLen)+11, p.PLen))
	var so, se bytes.Buffer
	cmd.Stdout, cmd.Stderr = &so, &se
	if err := cmd.Start(); err != nil {
		return core.Fail("harness", "start: %v", err)
	}
	done := make(chan error, 1)
	go func() { done <- cmd.Wait() }()
	select {
	case <-done:
	case <-time.After(60 * time.Second):
		cmd.Process.Kill()
		<-done
		return core.Fail("C11.cli.hang", "age -e %v did not finish within 60 s", p.Recips)
	}
	exit := cmd.ProcessState.ExitCode()
	if ws, ok := cmd.ProcessState.Sys().(syscall.WaitStatus); ok && ws.Signaled() {
		exit = 128 + int(ws.Signal())
	}
	var fileData []byte
	fileThere := false
	if b, err := os.ReadFile(out); err == nil {
		fileData, fileThere = b, true
	}
	c.Log.Add("cli %v via=%v armor=%v out=%s pre=%v plen=%d -> exit=%d stdout=%d file=%v/%d (model: refused=%v)", p.Recips, p.Via, p.Armor, p.Out, p.PreExist, p.PLen, exit, so.Len(), fileThere, len(fileData), refused)
	c.Stats.Inc("probe.cli_real_plugin_processes")
	c.Stats.Eval(fmt.Sprintf("cli|%v|%v|%v|%s|%v|%d", p.Recips, p.Via, p.Armor, p.Out, p.PreExist, p.PLen), len(p.Recips) > 1 || refused)
	desc := fmt.Sprintf("age -e%s to %v (given by -r / recipients file number: %v), output to %s", map[bool]string{true: " -a", false: ""}[p.Armor], p.Recips, p.Via, p.Out)
	if refused {
		c.Stats.Inc("probe.cli_refused_list")
		if missing > 0 {
			c.Stats.Inc("fault.cli_plugin_binary_missing")
		}
		if exit == 0 {
			return core.Fail("C11.cli.accepted_incompatible", "%s: the list must be refused (labelled %d, unlabelled %d, failing %d) but the exit status is 0", desc, labelled, unlabelled, missing)
		}
		if so.Len() != 0 {
			return core.Fail("C11.cli.bytes_on_refusal", "%s: the list is refused (exit %d) and %d bytes were written to standard output: %q", desc, exit, so.Len(), clipS(so.String()))
		}
		switch {
		case p.Out == "file" && !p.PreExist && fileThere:
			return core.Fail("C11.cli.bytes_on_refusal", "%s: the list is refused (exit %d) and the -o file was created, holding %d bytes: %q", desc, exit, len(fileData), clipS(string(fileData)))
		case p.Out == "file" && p.PreExist && !bytes.Equal(fileData, before):
			return core.Fail("C11.cli.bytes_on_refusal", "%s: the list is refused (exit %d) and the existing -o file was modified: it now holds %d bytes", desc, exit, len(fileData))
		}
		return nil
	}
	c.Stats.Inc("probe.cli_accepted_list")
	if exit != 0 {
		return core.Fail("C11.cli.refused_compatible", "%s: every recipient declares the same label set and none fails, but the exit status is %d: %s", desc, exit, clipS(se.String()))
	}
	got := so.Bytes()
	if p.Out == "file" {
		got = fileData
	}
	if len(got) < 100 {
		return core.Fail("C11.cli.refused_compatible", "%s: exit 0 but the output holds %d bytes", desc, len(got))
	}
	if magic := map[bool]string{true: "-----BEGIN AGE ENCRYPTED FILE-----\n", false: "age-encryption.org/v1\n"}[p.Armor]; !bytes.HasPrefix(got, []byte(magic)) {
		return core.Fail("C11.cli.foreign_bytes_in_output", "%s: exit 0 and the output does not begin with the file: %q", desc, clipS(string(got)))
	}
	return nil
}
