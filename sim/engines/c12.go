package engines

import (
	"bytes"
	"filippo.io/age/armor"
	"fmt"
	"io"
	"strings"

	"filippo.io/age"

	"verif/sim/core"
	"verif/sim/lib"
	"verif/sim/ref"
	"verif/sim/seam"
	"verif/sim/world"
)

// C12 — results do not depend on I/O chunking; processing is streaming.

type SchedPair struct {
	Delivery seam.Delivery `json:"delivery"`
	Reads    lib.ReadSched `json:"reads"`
}

type C12Plan struct {
	Mode   string       `json:"mode"` // "enc", "dec", "dearmor", "enarmor" (the armor writer alone)
	File   lib.FileSpec `json:"file"`
	Segs   []int        `json:"segs,omitempty"`
	Damage *Damage      `json:"damage,omitempty"` // dec: payload damage (C02 kinds), or whole-file kinds "ftrunc"/"fflip"
	Muts   []ArmorMut   `json:"muts,omitempty"`   // dearmor / armored dec: text corruption
	Pairs  []SchedPair  `json:"pairs,omitempty"`
}

type C12 struct{}

func (C12) ID() string { return "C12" }
func (C12) Title() string {
	return "write segmentation x delivery schedule x read-buffer schedule, with hold-back and read-ahead monitors"
}
func (C12) NewPlan() interface{} { return &C12Plan{} }
func (C12) Runs(tier string) int {
	if tier == "thorough" {
		return 1500000
	}
	return 60000
}

func (C12) Meta() core.Meta {
	return core.Meta{
		Level:       "exploration",
		Rule:        "enc case = (file, tape, write segmentation incl. empty writes, writes > 1 chunk, writes ending on chunk boundaries) compared byte for byte with the single-write run under the same tape, every Write must return (len,nil), hold-back monitor after every call (plaintext accepted minus plaintext whose ciphertext reached dst <= 65536 [+3 through armor]); dec/dearmor case = (valid or damaged image, set of (delivery schedule, read-size schedule) pairs incl. 1-byte pieces, data-with-EOF, bufio of 16..65536, reads of 0/1/65536/>65536 bytes) compared with the canonical whole-buffer schedule on released bytes and terminal error text, read-ahead monitor on every Read return. Non-trivial = the schedule differs from the canonical one; distinct = distinct (file skeleton, damage, schedule pair).",
		Assumptions: []string{"read-ahead bound: bytes consumed when chunk c is being released <= end of chunk c + one further chunk (65552) + max(4096, size of a bufio the plan put in front) [armored: translated to text columns plus one bufio page and one line]", "exact error text equality between schedules is required (probed sound on this tree)"},
		Real:        []string{"filippo.io/age Encrypt/Decrypt", "internal/stream", "internal/format", "armor"},
		Stub:        []string{"destination recorder", "ciphertext source with delivery schedule", "caller's read-buffer schedule", "crypto/rand.Reader (tape)"},
		FaultKinds:  []string{"fault.damaged_image", "fault.armor_corruption"},
		Probes:      []string{"probe.empty_write", "probe.fed_by_io_copy", "probe.write_gt_chunk", "probe.write_ends_on_boundary", "probe.exact_multiple_through_armor", "probe.bufio_lt_4096", "probe.bufio_ge_4096", "probe.data_with_eof", "probe.one_byte_delivery", "probe.zero_len_read", "probe.read_gt_chunk", "probe.outcome_error", "probe.outcome_clean", "probe.multi_chunk", "probe.armor_writer_alone"},
	}
}

func (C12) Generate(r *core.RNG, tier string, idx uint64) interface{} {
	p := &C12Plan{}
	p.File.Tape = r.U64() % 100000
	p.File.PSeed = r.U64() % 100000
	p.File.Armor = r.Chance(1, 3)
	p.File.Recips = lib.GenRecips(r, 2, r.Chance(1, 8), r.Chance(1, 6))
	p.File.PLen = lib.GenPLen(r, 3)
	switch r.Intn(10) {
	case 0, 1, 2, 3:
		p.Mode = "enc"
		p.Segs = lib.GenSegs(r, p.File.PLen)
		if r.Chance(1, 8) {
			// the armor writer on its own: any first write, also shorter than one base64 group
			p.Mode = "enarmor"
			p.File.Recips = nil
			p.File.PLen = r.Pick(0, 1, 2, 3, 4, 47, 48, 49, 100, r.Intn(3000))
			p.Segs = lib.GenSegs(r, p.File.PLen)
			if r.Bool() && p.File.PLen > 0 {
				first := r.Pick(0, 1, 2, 3)
				if first > p.File.PLen {
					first = p.File.PLen
				}
				p.Segs = append([]int{first}, lib.GenSegs(r, p.File.PLen-first)...)
				if r.Chance(1, 3) {
					p.Segs = nil // one byte at a time
					for i := 0; i < p.File.PLen && i < 200; i++ {
						p.Segs = append(p.Segs, 1)
					}
				}
			}
		}
		return p
	case 4:
		p.Mode = "dearmor"
		p.File.Recips = nil
		p.File.Armor = true
		p.File.PLen = r.Intn(2000)
		if r.Chance(2, 3) {
			p.Muts = []ArmorMut{genArmorMut(r)}
			if r.Chance(1, 3) {
				p.Muts = append(p.Muts, genArmorMut(r))
			}
		}
	default:
		p.Mode = "dec"
		if r.Chance(3, 5) {
			d := &Damage{Off: r.Intn(400000), Bit: r.Intn(8), N: r.Pick(1, 2, 16, 65552), I: r.Intn(4), J: r.Intn(4)}
			d.Kind = []string{"trunc", "flip", "insert", "delete", "extend", "drop", "dup", "swap", "ftrunc", "fflip", "ftrunc"}[r.Intn(11)]
			d.Fill = []string{"zeros", "random", "lastchunk", "sealedempty"}[r.Intn(4)]
			if r.Chance(1, 2) {
				// near the end / near a chunk boundary
				d.Off = r.Pick(0, 1, 15, 16, 17, 65551+16, 65552+16, 65553+16, 2*65552+15, 2*65552+16)
			}
			p.Damage = d
		}
		if p.File.Armor && r.Chance(1, 4) {
			p.Muts = []ArmorMut{genArmorMut(r)}
		}
	}
	n := r.Range(2, 4)
	for i := 0; i < n; i++ {
		p.Pairs = append(p.Pairs, SchedPair{seam.GenDelivery(r), lib.GenReadSched(r)})
	}
	return p
}

func (C12) Shrinks(plan interface{}) []interface{} {
	p := plan.(*C12Plan)
	var out []interface{}
	add := func(f func(q *C12Plan)) {
		q := *p
		q.File.Recips = append([]lib.Recip(nil), p.File.Recips...)
		q.Segs = append([]int(nil), p.Segs...)
		q.Pairs = append([]SchedPair(nil), p.Pairs...)
		q.Muts = append([]ArmorMut(nil), p.Muts...)
		if p.Damage != nil {
			d := *p.Damage
			q.Damage = &d
		}
		f(&q)
		out = append(out, &q)
	}
	if len(p.Pairs) > 1 {
		for i := range p.Pairs {
			i := i
			add(func(q *C12Plan) { q.Pairs = []SchedPair{p.Pairs[i]} })
		}
	}
	if len(p.Pairs) == 1 {
		pp := p.Pairs[0]
		if pp.Delivery.Bufio != 0 {
			add(func(q *C12Plan) { q.Pairs[0].Delivery.Bufio = 0 })
		}
		if pp.Delivery.Mode != "whole" {
			add(func(q *C12Plan) { q.Pairs[0].Delivery.Mode = "whole" })
		}
		if pp.Delivery.EOFWith {
			add(func(q *C12Plan) { q.Pairs[0].Delivery.EOFWith = false })
		}
		if pp.Reads.Mode != "all" {
			add(func(q *C12Plan) { q.Pairs[0].Reads = lib.ReadSched{Mode: "all"} })
		}
	}
	if p.File.Armor && p.Mode != "dearmor" && len(p.Muts) == 0 {
		add(func(q *C12Plan) { q.File.Armor = false })
	}
	if len(p.File.Recips) > 1 {
		add(func(q *C12Plan) { q.File.Recips = q.File.Recips[:1] })
	}
	if p.File.PLen > 0 {
		add(func(q *C12Plan) { q.File.PLen %= 65536; q.Segs = trimSegs(q.Segs, q.File.PLen) })
		add(func(q *C12Plan) { q.File.PLen /= 2; q.Segs = trimSegs(q.Segs, q.File.PLen) })
		add(func(q *C12Plan) { q.File.PLen--; q.Segs = trimSegs(q.Segs, q.File.PLen) })
	}
	if len(p.Segs) > 2 {
		add(func(q *C12Plan) { q.Segs = q.Segs[:len(q.Segs)/2]; q.Segs = trimSegs(q.Segs, q.File.PLen) })
		add(func(q *C12Plan) { q.Segs = q.Segs[1:]; q.Segs = trimSegs(q.Segs, q.File.PLen) })
	}
	if p.Damage != nil {
		add(func(q *C12Plan) { q.Damage = nil })
	}
	if len(p.Muts) > 0 {
		add(func(q *C12Plan) { q.Muts = nil })
	}
	return out
}

// binaryAtDst: how many binary (pre-armor) bytes the destination has.
func binaryAtDst(data []byte, armored bool) int {
	if !armored {
		return len(data)
	}
	i := bytes.IndexByte(data, '\n')
	if i < 0 {
		return 0
	}
	body := data[i+1:]
	chars := 0
	for _, ch := range body {
		if ch == '-' {
			break
		}
		if ch != '\n' && ch != '=' {
			chars++
		}
	}
	return chars * 3 / 4
}

func representedPlain(binary, hdrLen int) int {
	pay := binary - hdrLen - 16
	if pay <= 0 {
		return 0
	}
	full := pay / ref.EncChunk
	part := pay % ref.EncChunk
	if part > 65536 {
		part = 65536
	}
	return full*65536 + part
}

func (e C12) Execute(plan interface{}, c *core.Ctx) *core.Verdict {
	p := plan.(*C12Plan)
	switch p.Mode {
	case "enc":
		return e.execEnc(p, c)
	case "dec":
		return e.execDec(p, c)
	case "dearmor":
		return e.execDearmor(p, c)
	case "enarmor":
		return e.execEnarmor(p, c)
	}
	return core.Fail("harness", "bad mode")
}

func (e C12) execEnc(p *C12Plan, c *core.Ctx) *core.Verdict {
	canon, _ := lib.MustEncrypt(p.File)
	key := p.File.Keys()[0]
	l, err := layoutOf(canon, p.File, key)
	if err != nil {
		return core.Fail("C12.baseline", "reference cannot parse the single-write file: %v", err)
	}
	P := p.File.Plain()
	d := seam.NewDisk(nil, c.Log)
	var viol *core.Verdict
	maxHeld := 0
	res := lib.Encrypt(p.File, p.Segs, d, seam.NewTape(p.File.Tape), func(accepted int) {
		rep := representedPlain(binaryAtDst(d.Data, p.File.Armor), l.HeaderLen)
		held := accepted - rep
		if held > maxHeld {
			maxHeld = held
		}
		slack := 0
		if p.File.Armor {
			slack = 3
		}
		if held > 65536+slack && viol == nil {
			viol = core.Fail("C12.enc.holdback", "after accepting %d plaintext bytes only %d are represented at the destination: %d held back (> one 64 KiB chunk)", accepted, rep, held)
		}
	})
	nontrivial := len(p.Segs) != 1
	c.Stats.Eval(fmt.Sprintf("enc|%s|%v", p.File.Skeleton(), p.Segs), nontrivial)
	c.Stats.SetMax("max_plaintext_held_back", int64(maxHeld))
	if p.File.PLen > 65536 {
		c.Stats.Inc("probe.multi_chunk")
	}
	if res.AnyErr() {
		return core.Fail("C12.enc.error", "fault-free encryption with segmentation %v failed: %+v", p.Segs, res)
	}
	off := 0
	for i, s := range p.Segs {
		if s < 0 {
			c.Stats.Inc("probe.fed_by_io_copy")
			s = len(P) - off
		}
		if off+s > len(P) {
			s = len(P) - off
		}
		if i < len(res.WriteNs) && res.WriteNs[i] != s {
			return core.Fail("C12.enc.count", "successful Write of %d bytes (segment %d of %v) reported n=%d", s, i, p.Segs, res.WriteNs[i])
		}
		switch {
		case s == 0:
			c.Stats.Inc("probe.empty_write")
		case s > 65536:
			c.Stats.Inc("probe.write_gt_chunk")
		}
		off += s
		if s > 0 && off%65536 == 0 {
			c.Stats.Inc("probe.write_ends_on_boundary")
		}
	}
	if off != len(P) {
		// segmentation did not cover P (shrunk plan): compare against the file of the prefix
		q := p.File
		q.PLen = off
		// regenerate canonical for the prefix: Pattern is prefix-stable
		canon, _ = lib.MustEncrypt(q)
	}
	if p.File.Armor && off > 0 && off%65536 == 0 {
		c.Stats.Inc("probe.exact_multiple_through_armor")
	}
	if viol != nil {
		return viol
	}
	if !bytes.Equal(d.Data, canon) {
		i := 0
		for i < len(canon) && i < len(d.Data) && canon[i] == d.Data[i] {
			i++
		}
		return core.Fail("C12.enc.bytes", "output for segmentation %v differs from the single-write output under the same tape (lengths %d vs %d, first difference at byte %d)", p.Segs, len(d.Data), len(canon), i)
	}
	return nil
}

// monitorBound: max bytes the source may have handed out when `released` plaintext bytes are out.
func readAheadBound(released int, l *lib.Layout, imgLen int, armored bool, planBufio int) int {
	c := -1
	if released > 0 {
		c = (released - 1) / 65536
	}
	end := l.HeaderLen + 16 + (c+1)*ref.EncChunk
	buf := 4096
	if planBufio > buf {
		buf = planBufio
	}
	b := end + ref.EncChunk + buf + 1
	if armored {
		b = 35 + (b/48+1)*65 + 4096 + planBufio + 65
	}
	return b
}

func (e C12) execDec(p *C12Plan, c *core.Ctx) *core.Verdict {
	spec := p.File
	spec.Armor = false
	F, _ := lib.MustEncrypt(spec)
	key := spec.Keys()[0]
	l, err := lib.ParseLayout(F, key)
	if err != nil {
		return core.Fail("C12.baseline", "reference cannot parse: %v", err)
	}
	img := F
	headerIntact := true
	if d := p.Damage; d != nil {
		switch d.Kind {
		case "ftrunc":
			img = F[:d.Off%len(F)]
			headerIntact = len(img) >= l.HeaderLen
		case "fflip":
			img = append([]byte(nil), F...)
			o := d.Off % len(F)
			img[o] ^= 1 << uint(d.Bit)
			headerIntact = o >= l.HeaderLen
		default:
			img = applyDamage(d, F, l, spec)
		}
		c.Stats.Inc("fault.damaged_image")
	}
	armored := p.File.Armor
	if armored {
		t := ref.Armor(img)
		for _, m := range p.Muts {
			t = applyArmorMut(t, m)
			c.Stats.Inc("fault.armor_corruption")
			headerIntact = false
		}
		img = []byte(t)
	}
	if len(img) == 0 {
		img = []byte{}
	}
	ids := []age.Identity{world.Identity(key)}
	canonRes := lib.Decrypt(seam.NewSource(img, seam.Delivery{Mode: "whole"}, nil, nil).Reader(), armored, ids, lib.ReadSched{Mode: "all"}, nil)
	c.Log.Add("canonical: released=%d %s", len(canonRes.Released), canonRes.ErrText())
	if canonRes.Clean() {
		c.Stats.Inc("probe.outcome_clean")
	} else {
		c.Stats.Inc("probe.outcome_error")
	}
	if len(F) > l.HeaderLen+16+ref.EncChunk {
		c.Stats.Inc("probe.multi_chunk")
	}
	pairs := append([]SchedPair(nil), p.Pairs...)
	for _, sp := range pairs {
		src := seam.NewSource(img, sp.Delivery, nil, nil)
		var viol *core.Verdict
		maxAhead := 0
		// streaming: whenever the reader asks the source for more, what it has already taken must not be
		// more than about one chunk beyond what it has RELEASED so far (a Read that gathers several
		// chunks before returning anything is not incremental)
		releasedSoFar := 0
		src.OnAsk = func(consumedBefore int) {
			if !headerIntact || viol != nil {
				return
			}
			if b := readAheadBound(releasedSoFar, l, len(img), armored, sp.Delivery.Bufio); consumedBefore > b {
				viol = core.Fail("C12.dec.readahead", "the reader asks the source for more input after taking %d bytes while only %d plaintext bytes have been released (bound %d: about one chunk beyond the chunk being released; delivery %s, reads %+v)", consumedBefore, releasedSoFar, b, sp.Delivery, sp.Reads)
			}
		}
		onRead := func(released int) {
			releasedSoFar = released
			if !headerIntact {
				return
			}
			b := readAheadBound(released, l, len(img), armored, sp.Delivery.Bufio)
			c0 := 0
			if released > 0 {
				c0 = l.HeaderLen + 16 + ((released-1)/65536+1)*ref.EncChunk
			}
			if a := src.Consumed - c0; a > maxAhead {
				maxAhead = a
			}
			if src.Consumed > b && viol == nil {
				viol = core.Fail("C12.dec.readahead", "with %d plaintext bytes released the source has been asked for %d bytes, more than about one chunk beyond the chunk being released (bound %d; delivery %s)", released, src.Consumed, b, sp.Delivery)
			}
		}
		res := lib.Decrypt(src.Reader(), armored, ids, sp.Reads, onRead)
		c.Log.Add("pair %s reads=%+v: released=%d %s", sp.Delivery, sp.Reads, len(res.Released), res.ErrText())
		c.Stats.Eval(fmt.Sprintf("dec|%s|%+v|%v|%s|%+v", p.File.Skeleton(), p.Damage, p.Muts, sp.Delivery, sp.Reads), true)
		if !armored {
			c.Stats.SetMax("max_ciphertext_read_ahead_beyond_released_chunk", int64(maxAhead))
		}
		probeSched(c, sp)
		narrow := func() interface{} { q := *p; q.Pairs = []SchedPair{sp}; return &q }
		if res.BadRead != "" {
			v := core.Fail("C12.badread", "%s", res.BadRead)
			v.Narrow = narrow()
			return v
		}
		if viol != nil {
			viol.Narrow = narrow()
			return viol
		}
		if !bytes.Equal(res.Released, canonRes.Released) {
			v := core.Fail("C12.dec.bytes", "released plaintext depends on the schedule: %d bytes under %s/%+v vs %d bytes under the whole-buffer schedule (damage %+v)", len(res.Released), sp.Delivery, sp.Reads, len(canonRes.Released), p.Damage)
			v.Narrow = narrow()
			return v
		}
		if res.ErrText() != canonRes.ErrText() {
			v := core.Fail("C12.dec.error", "terminal error depends on the schedule: %q under %s/%+v vs %q under the whole-buffer schedule (damage %+v)", res.ErrText(), sp.Delivery, sp.Reads, canonRes.ErrText(), p.Damage)
			v.Narrow = narrow()
			return v
		}
	}
	return nil
}

func probeSched(c *core.Ctx, sp SchedPair) {
	if sp.Delivery.Bufio > 0 && sp.Delivery.Bufio < 4096 {
		c.Stats.Inc("probe.bufio_lt_4096")
	}
	if sp.Delivery.Bufio >= 4096 {
		c.Stats.Inc("probe.bufio_ge_4096")
	}
	if sp.Delivery.EOFWith {
		c.Stats.Inc("probe.data_with_eof")
	}
	if sp.Delivery.Mode == "one" {
		c.Stats.Inc("probe.one_byte_delivery")
	}
	if sp.Reads.Mode == "sizes" {
		c.Stats.Inc("probe.zero_len_read")
		if sp.Reads.Max > 65536 {
			c.Stats.Inc("probe.read_gt_chunk")
		}
	}
}

// execEnarmor: the armored text must be the same however the caller splits its writes (compared with one
// single write and with the reference armor), and every Write reports the full count.
func (e C12) execEnarmor(p *C12Plan, c *core.Ctx) *core.Verdict {
	data := p.File.Plain()
	one := seam.NewDisk(nil, nil)
	w := armor.NewWriter(one)
	if len(data) > 0 {
		if n, err := w.Write(data); n != len(data) || err != nil {
			return core.Fail("C12.enc.count", "single Write of %d bytes to the armor writer reported (%d, %v)", len(data), n, err)
		}
	}
	if err := w.Close(); err != nil {
		return core.Fail("C12.enc.error", "armor Close failed without a fault: %v", err)
	}
	d := seam.NewDisk(nil, c.Log)
	w = armor.NewWriter(d)
	off := 0
	for i, sg := range p.Segs {
		if sg < 0 {
			n, err := io.Copy(w, &lib.PlainReader{Data: data[off:], Max: -sg})
			if err != nil || int(n) != len(data)-off {
				return core.Fail("C12.enc.count", "io.Copy of %d bytes into the armor writer reported (%d, %v)", len(data)-off, n, err)
			}
			off = len(data)
			break
		}
		if off+sg > len(data) {
			sg = len(data) - off
		}
		scratch := append(make([]byte, 0, sg+7), data[off:off+sg]...)
		n, err := w.Write(scratch)
		for i := range scratch[:cap(scratch)] {
			scratch[:cap(scratch)][i] = 0xAA // the caller's buffer is reused at once
		}
		if n != sg || err != nil {
			return core.Fail("C12.enc.count", "Write of %d bytes (segment %d of %v) to the armor writer reported (%d, %v)", sg, i, p.Segs, n, err)
		}
		off += sg
	}
	if off < len(data) {
		if n, err := w.Write(data[off:]); n != len(data)-off || err != nil {
			return core.Fail("C12.enc.count", "final Write reported (%d, %v)", n, err)
		}
	}
	if err := w.Close(); err != nil {
		return core.Fail("C12.enc.error", "armor Close failed without a fault: %v", err)
	}
	c.Stats.Eval(fmt.Sprintf("enarmor|%d|%v", len(data), p.Segs), len(p.Segs) > 1)
	c.Stats.Inc("probe.armor_writer_alone")
	if !bytes.Equal(d.Data, one.Data) {
		return core.Fail("C12.enc.bytes", "armoring %d bytes with writes %v gives other text than one single Write: first difference at byte %d (%d vs %d bytes)", len(data), p.Segs, firstDiff(d.Data, one.Data), len(d.Data), len(one.Data))
	}
	if want := ref.Armor(data); string(d.Data) != want {
		return core.Fail("C12.enc.bytes", "armoring %d bytes gives text the reference armor does not produce (first difference at byte %d)", len(data), firstDiff(d.Data, []byte(want)))
	}
	return nil
}

func (e C12) execDearmor(p *C12Plan, c *core.Ctx) *core.Verdict {
	data := p.File.Plain()
	text := ref.Armor(data)
	for _, m := range p.Muts {
		text = applyArmorMut(text, m)
		c.Stats.Inc("fault.armor_corruption")
	}
	if len(text) == 0 {
		text = "\n"
	}
	canonRes := dearmorOutcome([]byte(text), seam.Delivery{Mode: "whole"}, lib.ReadSched{Mode: "all"}, nil)
	longest := 0
	for _, l := range strings.Split(text, "\n") {
		if len(l) > longest {
			longest = len(l)
		}
	}
	for _, sp := range p.Pairs {
		src := seam.NewSource([]byte(text), sp.Delivery, nil, nil)
		res := &lib.DecResult{}
		var viol *core.Verdict
		rd := newArmorReader(src)
		lib.Drain(rd, sp.Reads, res, func(released int) {
			// armor: at most one bufio page + one line beyond what was released (a line of the damaged text can be far
			// longer than 64 columns, and a reader has to see a line to its end to judge it)
			b := 35 + (released/48+2)*66 + 4096 + sp.Delivery.Bufio + 1100 + longest
			if src.Consumed > b && viol == nil {
				viol = core.Fail("C12.dearmor.readahead", "with %d bytes released the armor reader consumed %d text bytes (bound %d)", released, src.Consumed, b)
			}
		})
		c.Stats.Eval(fmt.Sprintf("dearmor|%d|%v|%s|%+v", len(data), p.Muts, sp.Delivery, sp.Reads), true)
		probeSched(c, sp)
		narrow := func() interface{} { q := *p; q.Pairs = []SchedPair{sp}; return &q }
		if viol != nil {
			viol.Narrow = narrow()
			return viol
		}
		if !bytes.Equal(res.Released, canonRes.Released) || fmt.Sprint(res.Err) != fmt.Sprint(canonRes.Err) {
			v := core.Fail("C12.dearmor.outcome", "de-armoring depends on the schedule: (%d bytes, %v) under %s/%+v vs (%d bytes, %v) whole-buffer; corruption %+v", len(res.Released), res.Err, sp.Delivery, sp.Reads, len(canonRes.Released), canonRes.Err, p.Muts)
			v.Narrow = narrow()
			return v
		}
	}
	return nil
}
