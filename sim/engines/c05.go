package engines

import (
	"bytes"
	"crypto/ed25519"
	"crypto/sha256"
	"embed"
	"encoding/hex"
	"encoding/json"
	"fmt"
	"io"
	"io/fs"
	"strings"

	agetest "c2sp.org/CCTV/age"

	"filippo.io/age"
	"filippo.io/age/armor"

	"verif/sim/core"
	"verif/sim/lib"
	"verif/sim/ref"
	"verif/sim/seam"
	"verif/sim/world"
)

// C05 — files are byte-exact age v1 and existing files keep decrypting.

//go:embed corpus/*
var corpusFS embed.FS

// CorpusEntry is one frozen file: the header verbatim (as the pinned tree wrote
// it), the values that determine the payload, and hashes recorded at freeze time.
type CorpusEntry struct {
	Name      string        `json:"name"`
	Writer    string        `json:"writer"` // "age" (written by the pinned tree) | "ref" (reference encoder) | "upstream" (testdata/example.age)
	Key       world.Key     `json:"key"`    // an identity that opens it
	Armor     bool          `json:"armor"`
	PSeed     uint64        `json:"pseed"`
	PLen      int           `json:"plen"`
	HeaderB64 string        `json:"header_b64"` // header bytes incl. MAC line, base64
	FileKey   string        `json:"file_key"`   // hex
	Nonce     string        `json:"nonce"`      // hex
	FileSHA   string        `json:"file_sha256"`
	PlainSHA  string        `json:"plain_sha256"`
	Stored    string        `json:"stored,omitempty"` // file name under corpus/ when stored verbatim
	Spec      *lib.FileSpec `json:"spec,omitempty"`
}

func LoadCorpus() []CorpusEntry {
	b, err := corpusFS.ReadFile("corpus/manifest.json")
	if err != nil {
		return nil
	}
	var es []CorpusEntry
	if err := json.Unmarshal(b, &es); err != nil {
		panic(err)
	}
	return es
}

// Materialise rebuilds the file bytes of a corpus entry (stored verbatim, or
// header verbatim + payload re-sealed by the reference model).
func (e CorpusEntry) Materialise() ([]byte, error) {
	if e.Stored != "" {
		return corpusFS.ReadFile("corpus/" + e.Stored)
	}
	hdr, err := ref.UnB64(e.HeaderB64)
	if err != nil {
		return nil, err
	}
	fk, _ := hex.DecodeString(e.FileKey)
	nonce, _ := hex.DecodeString(e.Nonce)
	bin := append(append(hdr, nonce...), ref.SealPayload(ref.StreamKey(fk, nonce), core.Pattern(e.PSeed, e.PLen))...)
	if e.Armor {
		return []byte(ref.Armor(bin)), nil
	}
	return bin, nil
}

type C05Plan struct {
	Mode      string       `json:"mode"` // "enc" | "dec" | "corpus" | "big"
	File      lib.FileSpec `json:"file"`
	Segs      []int        `json:"segs,omitempty"`
	RSeed     uint64       `json:"rseed,omitempty"`      // dec: seed of the reference writer's random values
	Corpus    int          `json:"corpus,omitempty"`     // corpus: entry index
	Inter     bool         `json:"inter,omitempty"`      // dec: a second reference-written file is decrypted in between the reads of the first (two live readers in one process)
	Outs      int          `json:"outs,omitempty"`       // dec/corpus: this many non-matching identities (X25519, ssh-ed25519, ssh-rsa in turn) are listed before the matching one
	WarmFault int          `json:"warm_fault,omitempty"` // enc with reuse: the first earlier file's destination fails at write call warm_fault-1 (the process lives on and encrypts again)
	Reuse     int          `json:"reuse,omitempty"`      // enc: the recipient objects (one per distinct key) already encrypted this many files before the checked one
}

type C05 struct{}

func (C05) ID() string { return "C05" }
func (C05) Title() string {
	return "differential refinement against the reference model through the randomness seam, frozen corpus"
}
func (C05) NewPlan() interface{} { return &C05Plan{} }
func (C05) Runs(tier string) int {
	if tier == "thorough" {
		return 400000
	}
	return 20000
}

func (C05) Meta() core.Meta {
	return core.Meta{
		Level:       "exploration",
		Rule:        "enc case = (plaintext, recipient list over all four types + grease, random tape, armor on/off): the library writes the file under the tape; the random values are recovered by role from the file and located on the tape; the reference model must reproduce the file byte for byte from them (ssh-rsa stanzas are opened by a from-the-RFC OAEP decoder instead) and decrypt it with every identity. dec case = the reference encoder writes a file over the same space with its own random values and the library must decrypt it with every identity to the exact plaintext. corpus case = one frozen file (written by the pinned tree / the reference; the 12 upstream CCTV success vectors are replayed as well; all types x armored/binary x |P| in {0,1,65535,65536,65537,131072}) must still have its recorded hash and decrypt to its recorded plaintext. big case = a 257-chunk file in both directions (counter carry into the second byte). Non-trivial = every case; distinct = distinct (mode, file skeleton, tape).",
		Assumptions: []string{"the reference model (validated against the 114 CCTV vectors and testdata/example.age) is the specification", "chunk counters above 2^16 (4 GiB files) are out of reach"},
		Real:        []string{"filippo.io/age Encrypt/Decrypt", "all four recipient/identity types", "armor", "internal/stream", "internal/format"},
		Stub:        []string{"crypto/rand.Reader (tape)", "destination recorder", "reference encoder/decoder (sim/ref)"},
		FaultKinds:  []string{},
		Probes:      []string{"probe.enc_x25519", "probe.enc_scrypt", "probe.enc_ssh_ed25519", "probe.enc_ssh_rsa", "probe.enc_grease", "probe.enc_reused_recipient_objects", "probe.two_files_read_alternately", "probe.enc_after_a_failed_encryption", "probe.enc_armor", "probe.dec_ref_written", "probe.corpus_entry", "probe.cctv_vector", "probe.big_257_chunks", "probe.len_on_chunk_boundary", "probe.body_multiple_of_48"},
	}
}

// cctvSuccess lists the CCTV vectors that must decrypt (expect: success).
func cctvSuccess() []string {
	ents, _ := fs.ReadDir(agetest.Vectors, ".")
	var out []string
	for _, e := range ents {
		b, _ := fs.ReadFile(agetest.Vectors, e.Name())
		if strings.HasPrefix(string(b), "expect: success\n") {
			out = append(out, e.Name())
		}
	}
	return out
}

func (C05) Generate(r *core.RNG, tier string, idx uint64) interface{} {
	p := &C05Plan{}
	nc := len(LoadCorpus())
	nv := len(cctvSuccess())
	switch {
	case int(idx) < nc:
		p.Mode = "corpus"
		p.Corpus = int(idx)
		return p
	case int(idx) < nc+nv:
		p.Mode = "cctv"
		p.Corpus = int(idx) - nc
		return p
	case int(idx) < 2*nc+nv:
		// the frozen files once more, behind identities that match nothing
		p.Mode = "corpus"
		p.Corpus = int(idx) - nc - nv
		p.Outs = 1 + int(idx)%3
		return p
	case idx%4000 == 1000:
		p.Mode = "big"
		p.File.Recips = []lib.Recip{{Key: &world.Key{T: "x", K: r.Intn(world.NX25519)}}}
		p.File.PLen = 257*65536 + r.Pick(-1, 0, 5)
		p.File.PSeed = r.U64() % 1000
		p.File.Tape = r.U64() % 1000
		p.RSeed = r.U64() % 1000
		return p
	case idx%2 == 0:
		p.Mode = "enc"
	default:
		p.Mode = "dec"
	}
	p.File.Tape = r.U64() % 10000000
	p.File.PSeed = r.U64() % 10000000
	p.RSeed = r.U64() % 10000000
	p.File.Armor = r.Chance(1, 3)
	p.File.Recips = lib.GenRecips(r, 4, r.Chance(1, 3), true)
	p.File.PLen = lib.GenPLen(r, 3)
	if r.Chance(1, 2) {
		p.File.PLen = r.Intn(400)
	}
	p.Segs = lib.GenSegs(r, p.File.PLen)
	if p.Mode == "enc" && r.Chance(1, 4) {
		p.Reuse = r.Range(1, 2)
		if r.Bool() {
			p.WarmFault = 1 + r.Intn(14)
		}
	}
	if p.Mode == "dec" && r.Chance(1, 2) {
		p.Outs = r.Range(1, 3)
	}
	if p.Mode == "dec" && r.Chance(1, 4) {
		p.Inter = true
	}
	return p
}

func (C05) Shrinks(plan interface{}) []interface{} {
	p := plan.(*C05Plan)
	var out []interface{}
	if p.Mode == "corpus" || p.Mode == "big" || p.Mode == "cctv" {
		return nil
	}
	add := func(f func(q *C05Plan)) {
		q := *p
		q.File.Recips = append([]lib.Recip(nil), p.File.Recips...)
		q.Segs = append([]int(nil), p.Segs...)
		f(&q)
		out = append(out, &q)
	}
	if len(p.File.Recips) > 1 {
		for i := range p.File.Recips {
			i := i
			add(func(q *C05Plan) {
				q.File.Recips = append(q.File.Recips[:i:i], q.File.Recips[i+1:]...)
			})
		}
	}
	if p.File.Armor {
		add(func(q *C05Plan) { q.File.Armor = false })
	}
	if p.File.PLen > 0 {
		add(func(q *C05Plan) { q.File.PLen = 0; q.Segs = nil })
		add(func(q *C05Plan) { q.File.PLen %= 65536; q.Segs = []int{q.File.PLen} })
		add(func(q *C05Plan) { q.File.PLen /= 2; q.Segs = []int{q.File.PLen} })
	}
	if len(p.Segs) > 1 {
		add(func(q *C05Plan) { q.Segs = []int{q.File.PLen} })
	}
	return out
}

// RefWrite: the reference encoder writes the file for spec from its own random values.
func RefWrite(spec lib.FileSpec, rseed uint64) []byte {
	rng := core.NewRNG(rseed ^ 0xeef)
	f := &ref.File{FileKey: rng.Bytes(16), Nonce: rng.Bytes(16), Plain: spec.Plain()}
	for _, r := range spec.Recips {
		if r.Grease != nil {
			for _, w := range r.Grease.Recipient().Stanzas() {
				f.Stanzas = append(f.Stanzas, &ref.Stanza{Type: w.Type, Args: w.Args, Body: w.Body})
			}
			continue
		}
		k := *r.Key
		switch k.T {
		case "x":
			f.Stanzas = append(f.Stanzas, ref.WrapX25519(f.FileKey, rng.Bytes(32), ref.X25519Public(world.X25519Secret(k.K))))
		case "e":
			f.Stanzas = append(f.Stanzas, ref.WrapSSHEd25519(f.FileKey, rng.Bytes(32), world.EdKey(k.K).Public().(ed25519.PublicKey)))
		case "s":
			f.Stanzas = append(f.Stanzas, ref.WrapScrypt(f.FileKey, rng.Bytes(16), k.WF, world.Passphrases[k.K]))
		case "r":
			st, err := ref.WrapSSHRSA(f.FileKey, bytes.NewReader(rng.Bytes(4096)), &world.RSAKey(k.K).PublicKey)
			if err != nil {
				panic(err)
			}
			f.Stanzas = append(f.Stanzas, st)
		}
	}
	bin := f.Encode()
	if spec.Armor {
		return []byte(ref.Armor(bin))
	}
	return bin
}

func firstDiff(a, b []byte) int {
	i := 0
	for i < len(a) && i < len(b) && a[i] == b[i] {
		i++
	}
	return i
}

func (e C05) Execute(plan interface{}, c *core.Ctx) *core.Verdict {
	p := plan.(*C05Plan)
	switch p.Mode {
	case "cctv":
		return e.execCCTV(p, c)
	case "corpus":
		return e.execCorpus(p, c)
	case "enc", "big":
		if v := e.execEnc(p, c); v != nil {
			return v
		}
		if p.Mode == "big" {
			c.Stats.Inc("probe.big_257_chunks")
			return e.execDec(p, c)
		}
		return nil
	case "dec":
		return e.execDec(p, c)
	}
	return core.Fail("harness", "bad mode")
}

func (e C05) execEnc(p *C05Plan, c *core.Ctx) *core.Verdict {
	spec := p.File
	tape := seam.NewTape(spec.Tape)
	d := seam.NewDisk(nil, nil)
	segs := p.Segs
	if len(segs) == 0 {
		segs = []int{spec.PLen}
	}
	var res *lib.EncResult
	if p.Reuse > 0 {
		// long-lived recipient objects: the same objects wrote other files first
		cache := map[string]age.Recipient{}
		for i := 0; i < p.Reuse; i++ {
			warm := spec
			warm.PLen, warm.Armor = 3, false
			var wf *seam.DiskFault
			if i == 0 && p.WarmFault > 0 {
				wf = &seam.DiskFault{Call: p.WarmFault - 1, Byte: -1, Permanent: true, Partial: p.WarmFault%2 == 0}
				c.Stats.Inc("probe.enc_after_a_failed_encryption")
			}
			if r := lib.EncryptWith(cachedRecipients(cache, spec.Recips), warm, []int{3}, seam.NewDisk(wf, nil), seam.NewTape(spec.Tape+uint64(i)+1), nil); r.AnyErr() && wf == nil {
				return core.Fail("C05.encrypt", "encryption failed: %+v", r)
			}
		}
		c.Stats.Inc("probe.enc_reused_recipient_objects")
		res = lib.EncryptWith(cachedRecipients(cache, spec.Recips), spec, segs, d, tape, nil)
	} else {
		res = lib.Encrypt(spec, segs, d, tape, nil)
	}
	if res.AnyErr() {
		return core.Fail("C05.encrypt", "encryption failed: %+v", res)
	}
	P := spec.Plain()[:res.Accepted]
	c.Stats.Eval(fmt.Sprintf("enc|%s|tape%d|reuse%d", spec.Skeleton(), spec.Tape, p.Reuse), true)
	bin := d.Data
	if spec.Armor {
		c.Stats.Inc("probe.enc_armor")
		var err error
		bin, err = ref.Dearmor(string(d.Data))
		if err != nil {
			return core.Fail("C05.armor", "armored output is not canonical armor per the reference model: %v", err)
		}
		if len(bin)%48 == 0 {
			c.Stats.Inc("probe.body_multiple_of_48")
		}
	}
	rc, v := Recover("C05", spec, bin, tape)
	if v != nil {
		return v
	}
	for _, k := range spec.Keys() {
		c.Stats.Inc(map[string]string{"x": "probe.enc_x25519", "s": "probe.enc_scrypt", "e": "probe.enc_ssh_ed25519", "r": "probe.enc_ssh_rsa"}[k.T])
	}
	for i, st := range rc.Header.Stanzas {
		if rc.RefStanzas[i] == nil || !stanzaEq(rc.RefStanzas[i], st) {
			return core.Fail("C05.stanza_bytes", "stanza %d (%s) is not what the format prescribes for the recipient, file key and random value used: library wrote %q, reference writes %q",
				i, st.Type, ref.MarshalStanza(st), ref.MarshalStanza(rc.RefStanzas[i]))
		}
		if len(st.Args) > 0 && st.Type[:2] == "gr" {
			c.Stats.Inc("probe.enc_grease")
		}
	}
	if len(P) > 0 && (len(P)%65536 <= 1 || len(P)%65536 == 65535) {
		c.Stats.Inc("probe.len_on_chunk_boundary")
	}
	rf := &ref.File{FileKey: rc.FileKey, Stanzas: rc.RefStanzas, Nonce: rc.Nonce, Plain: P}
	want := rf.Encode()
	if !bytes.Equal(want, bin) {
		i := firstDiff(want, bin)
		where := "payload"
		if i < rc.HeaderLen {
			where = "header"
		} else if i < rc.HeaderLen+16 {
			where = "nonce"
		}
		return core.Fail("C05.file_bytes", "file for %s differs from the reference encoding of the same values at byte %d (%s; chunk %d); lengths %d vs %d", spec.Skeleton(), i, where, (i-rc.HeaderLen-16)/ref.EncChunk, len(bin), len(want))
	}
	if spec.Armor {
		if t := ref.Armor(bin); t != string(d.Data) {
			return core.Fail("C05.armor_bytes", "armored text differs from the reference armor at byte %d", firstDiff([]byte(t), d.Data))
		}
	}
	// the independent implementation decrypts it with every identity
	for _, k := range spec.Keys() {
		pt, _, err := ref.Decrypt(bin, world.RefUnwrapper(k))
		if err != nil || !bytes.Equal(pt, P) {
			return core.Fail("C05.ref_decrypt", "reference model cannot decrypt the library's file with identity %s: %v", k, err)
		}
	}
	return nil
}

func (e C05) execDec(p *C05Plan, c *core.Ctx) *core.Verdict {
	spec := p.File
	img := RefWrite(spec, p.RSeed)
	P := spec.Plain()
	c.Stats.Inc("probe.dec_ref_written")
	if p.Inter && !spec.Armor {
		// two files open at once, read alternately in small and large pieces
		other := spec
		other.PSeed, other.PLen = spec.PSeed+1, spec.PLen/2+33
		imgB := RefWrite(other, p.RSeed+1)
		k := spec.Keys()[0]
		rA, errA := age.Decrypt(bytes.NewReader(img), world.Identity(k))
		rB, errB := age.Decrypt(bytes.NewReader(imgB), world.Identity(k))
		if errA != nil || errB != nil {
			return core.Fail("C05.decrypt_ref_file", "reference-written files for %s are not opened: %v / %v", spec.Skeleton(), errA, errB)
		}
		var gotA, gotB []byte
		small := make([]byte, 16)
		for done := 0; done < 2; {
			done = 0
			n, err := rA.Read(small)
			gotA = append(gotA, small[:n]...)
			if err != nil {
				done++
			}
			big := make([]byte, 70000)
			n, err = rB.Read(big)
			gotB = append(gotB, big[:n]...)
			if err != nil {
				done++
			}
			if len(gotA) > len(P)+100 || len(gotB) > len(P)+100 {
				break
			}
		}
		restA, _ := io.ReadAll(rA)
		gotA = append(gotA, restA...)
		restB, _ := io.ReadAll(rB)
		gotB = append(gotB, restB...)
		c.Stats.Inc("probe.two_files_read_alternately")
		c.Stats.Eval(fmt.Sprintf("dec-inter|%s|r%d", spec.Skeleton(), p.RSeed), true)
		if !bytes.Equal(gotA, P) || !bytes.Equal(gotB, other.Plain()) {
			return core.Fail("C05.decrypt_ref_file", "two reference-written files for %s read alternately in one process: file A gives %d bytes (first difference at %d of %d), file B %d bytes (first difference at %d of %d)", spec.Skeleton(), len(gotA), firstDiff(gotA, P), len(P), len(gotB), firstDiff(gotB, other.Plain()), len(other.Plain()))
		}
	}
	for _, k := range spec.Keys() {
		c.Stats.Eval(fmt.Sprintf("dec|%s|r%d|%s", spec.Skeleton(), p.RSeed, k), true)
		src := seam.NewSource(img, seam.Delivery{Mode: "whole"}, nil, nil)
		res := lib.Decrypt(src.Reader(), spec.Armor, idsWithOutsiders(spec.Keys(), k, p.Outs), lib.ReadSched{Mode: "all"}, nil)
		c.Log.Add("ref-written %s opened by %s after %d non-matching identities: released=%d %s", spec.Skeleton(), k, p.Outs, len(res.Released), res.ErrText())
		if !res.Clean() || !bytes.Equal(res.Released, P) {
			return core.Fail("C05.decrypt_ref_file", "a file written by the reference encoder for %s is not decrypted by identity %s: %s after %d of %d bytes", spec.Skeleton(), k, res.ErrText(), len(res.Released), len(P))
		}
	}
	return nil
}

// idsWithOutsiders: n identities that match nothing in the file, then the one that does (a passphrase file is
// only ever opened with its own identity).
func idsWithOutsiders(listed []world.Key, k world.Key, n int) []age.Identity {
	var ids []age.Identity
	if k.T != "s" {
		outs := genOutsidersFixed(listed)
		for i := 0; i < n && i < len(outs); i++ {
			ids = append(ids, world.Identity(outs[i]))
		}
	}
	return append(ids, world.Identity(k))
}

func (e C05) execCorpus(p *C05Plan, c *core.Ctx) *core.Verdict {
	es := LoadCorpus()
	if p.Corpus >= len(es) {
		return nil
	}
	en := es[p.Corpus]
	c.Stats.Inc("probe.corpus_entry")
	c.Stats.Eval("corpus|"+en.Name, true)
	img, err := en.Materialise()
	if err != nil {
		return core.Fail("C05.corpus_harness", "cannot materialise %s: %v", en.Name, err)
	}
	if h := sha256.Sum256(img); hex.EncodeToString(h[:]) != en.FileSHA {
		return core.Fail("C05.corpus_harness", "corpus file %s does not have its recorded hash", en.Name)
	}
	src := seam.NewSource(img, seam.Delivery{Mode: "whole"}, nil, nil)
	res := lib.Decrypt(src.Reader(), en.Armor, idsWithOutsiders([]world.Key{en.Key}, en.Key, p.Outs), lib.ReadSched{Mode: "all"}, nil)
	c.Log.Add("corpus %s: released=%d %s", en.Name, len(res.Released), res.ErrText())
	h := sha256.Sum256(res.Released)
	if !res.Clean() || hex.EncodeToString(h[:]) != en.PlainSHA {
		return core.Fail("C05.corpus_decrypt", "frozen corpus file %s (writer %s) no longer decrypts to its recorded plaintext: %s after %d bytes", en.Name, en.Writer, res.ErrText(), len(res.Released))
	}
	return nil
}

// MakeCorpus builds the corpus manifest from the tree the simulator is linked
// against (run once on the pinned tree; the result is committed).
func MakeCorpus() ([]CorpusEntry, map[string][]byte) {
	var es []CorpusEntry
	stored := map[string][]byte{}
	keys := []world.Key{{T: "x", K: 1}, {T: "s", K: 0, WF: 4}, {T: "e", K: 2}, {T: "r", K: 3}}
	lens := []int{0, 1, 65535, 65536, 65537, 131072}
	n := uint64(0)
	for _, k := range keys {
		for _, armor := range []bool{false, true} {
			for _, pl := range lens {
				for _, writer := range []string{"age", "ref"} {
					n++
					kk := k
					spec := lib.FileSpec{Recips: []lib.Recip{{Key: &kk}}, PSeed: 500 + n, PLen: pl, Tape: 900 + n, Armor: armor}
					var img []byte
					if writer == "age" {
						img, _ = lib.MustEncrypt(spec)
					} else {
						img = RefWrite(spec, 700+n)
					}
					bin := img
					if armor {
						bin, _ = ref.Dearmor(string(img))
					}
					l, err := lib.ParseLayout(bin, k)
					if err != nil {
						panic(err)
					}
					fh := sha256.Sum256(img)
					ph := sha256.Sum256(spec.Plain())
					e := CorpusEntry{Name: fmt.Sprintf("%s-%s-armor%v-len%d", writer, k, armor, pl), Writer: writer, Key: k, Armor: armor,
						PSeed: spec.PSeed, PLen: pl, HeaderB64: ref.B64(bin[:l.HeaderLen]), FileKey: hex.EncodeToString(l.FileKey),
						Nonce: hex.EncodeToString(l.Nonce), FileSHA: hex.EncodeToString(fh[:]), PlainSHA: hex.EncodeToString(ph[:])}
					if pl <= 1 {
						e.Stored = e.Name + ".age"
						stored[e.Stored] = img
					}
					es = append(es, e)
				}
			}
		}
	}
	return es, stored
}

// execCCTV: the upstream success vectors are part of the fixed corpus.
func (e C05) execCCTV(p *C05Plan, c *core.Ctx) *core.Verdict {
	names := cctvSuccess()
	if p.Corpus >= len(names) {
		return nil
	}
	name := names[p.Corpus]
	raw, _ := fs.ReadFile(agetest.Vectors, name)
	var ids []age.Identity
	var want string
	armored := false
	file := raw
	for {
		line, rest, ok := bytes.Cut(file, []byte("\n"))
		if !ok {
			return core.Fail("C05.corpus_harness", "vector %s has no payload", name)
		}
		file = rest
		if len(line) == 0 {
			break
		}
		k, v, _ := strings.Cut(string(line), ": ")
		switch k {
		case "payload":
			want = v
		case "identity":
			i, err := age.ParseX25519Identity(v)
			if err != nil {
				return core.Fail("C05.corpus_harness", "vector %s: %v", name, err)
			}
			ids = append(ids, i)
		case "passphrase":
			i, err := age.NewScryptIdentity(v)
			if err != nil {
				return core.Fail("C05.corpus_harness", "vector %s: %v", name, err)
			}
			ids = append(ids, i)
		case "armored":
			armored = true
		}
	}
	c.Stats.Inc("probe.cctv_vector")
	c.Stats.Eval("cctv|"+name, true)
	res := &lib.DecResult{}
	var in = seam.NewSource(file, seam.Delivery{Mode: "whole"}, nil, nil).Reader()
	if armored {
		in = armor.NewReader(in)
	}
	r, err := age.Decrypt(in, ids...)
	if err != nil {
		return core.Fail("C05.corpus_decrypt", "upstream vector %s (expect: success) is rejected: %v", name, err)
	}
	lib.Drain(r, lib.ReadSched{Mode: "all"}, res, nil)
	h := sha256.Sum256(res.Released)
	c.Log.Add("cctv %s: released=%d err=%v", name, len(res.Released), res.Err)
	if !res.Clean() || hex.EncodeToString(h[:]) != want {
		return core.Fail("C05.corpus_decrypt", "upstream vector %s (expect: success) does not decrypt to its recorded payload: %v after %d bytes", name, res.Err, len(res.Released))
	}
	return nil
}
