package engines

import (
	"bytes"
	"encoding/json"
	"errors"
	"fmt"
	"io"
	"os"
	"os/exec"
	"strings"

	"filippo.io/age/armor"

	"verif/sim/core"
	"verif/sim/lib"
	"verif/sim/ref"
	"verif/sim/seam"
)

// C08 — armor decodes what it encodes and accepts only canonical armor.

// ArmorMut is one transport corruption of an armored text.
type ArmorMut struct {
	Kind string `json:"kind"`
	I    int    `json:"i,omitempty"`
	J    int    `json:"j,omitempty"`
	N    int    `json:"n,omitempty"`
	B    int    `json:"b,omitempty"`
}

var armorMutKinds = []string{"none", "linedrop", "linedup", "lineswap", "linesplit", "linejoin", "byteflip", "bytesub", "trunc",
	"crlf_all", "crlf_some", "cr_only", "ws_before", "ws_after", "ws_lines_before", "garbage_before", "garbage_after", "pem_header",
	"pad_move", "pad_strip", "pad_extra", "lower_header", "space_eol", "empty_line", "no_final_lf", "dup_footer", "wrong_type", "short_mid", "long_line", "blanks_in_begin_line", "blanks_in_end_line", "stride65"}

func genArmorMut(r *core.RNG) ArmorMut {
	m := ArmorMut{Kind: armorMutKinds[r.Intn(len(armorMutKinds))], I: r.Intn(1000), J: r.Intn(1000), B: r.Intn(256)}
	switch m.Kind {
	case "ws_before", "ws_after", "ws_lines_before":
		m.N = r.Pick(1, 2, 10, 1021, 1022, 1023, 1024, 1025, 1026, 2000)
	case "blanks_in_begin_line", "blanks_in_end_line":
		m.N = r.Pick(1, 2, 63, 64, 127, 128, 129, 256, 384, 896, 1024, 4096)
	case "stride65":
		m.N = r.Range(0, 11)
	default:
		m.N = r.Range(1, 5)
	}
	return m
}

func applyArmorMut(text string, m ArmorMut) string {
	lines := strings.SplitAfter(text, "\n")
	if len(lines) > 0 && lines[len(lines)-1] == "" {
		lines = lines[:len(lines)-1]
	}
	n := len(lines)
	if n == 0 {
		// (an earlier mutation truncated the text to nothing: only the kinds that add text still apply)
		switch m.Kind {
		case "ws_before", "ws_after", "ws_lines_before", "garbage_before", "garbage_after", "blanks_in_begin_line":
		default:
			return text
		}
	}
	join := func(ls []string) string { return strings.Join(ls, "") }
	bodyIdx := func(k int) int { // index of a body line (1..n-2) if any
		if n <= 2 {
			return k % n
		}
		return 1 + k%(n-2)
	}
	ws := func(k, cnt int) string {
		set := []string{" ", "\n", "\t", "\r\n", "\r"}
		var b strings.Builder
		for b.Len() < cnt {
			b.WriteString(set[(k+b.Len())%len(set)])
		}
		return b.String()[:cnt]
	}
	switch m.Kind {
	case "none":
		return text
	case "linedrop":
		i := m.I % n
		return join(append(append([]string{}, lines[:i]...), lines[i+1:]...))
	case "linedup":
		i := m.I % n
		return join(append(append(append([]string{}, lines[:i+1]...), lines[i]), lines[i+1:]...))
	case "lineswap":
		i, j := m.I%n, m.J%n
		ls := append([]string{}, lines...)
		ls[i], ls[j] = ls[j], ls[i]
		return join(ls)
	case "linesplit":
		i := bodyIdx(m.I)
		l := lines[i]
		if len(l) < 3 {
			return text
		}
		c := 1 + m.J%(len(l)-2)
		ls := append(append(append([]string{}, lines[:i]...), l[:c]+"\n", l[c:]), lines[i+1:]...)
		return join(ls)
	case "linejoin":
		i := m.I % n
		if i+1 >= n {
			return text
		}
		ls := append(append(append([]string{}, lines[:i]...), strings.TrimSuffix(lines[i], "\n")+lines[i+1]), lines[i+2:]...)
		return join(ls)
	case "byteflip":
		b := []byte(text)
		b[m.I%len(b)] ^= 1 << uint(m.J%8)
		return string(b)
	case "bytesub":
		b := []byte(text)
		b[m.I%len(b)] = byte(m.B)
		return string(b)
	case "trunc":
		return text[:m.I%len(text)]
	case "crlf_all":
		return strings.ReplaceAll(text, "\n", "\r\n")
	case "crlf_some":
		ls := append([]string{}, lines...)
		for k := 0; k < m.N; k++ {
			i := (m.I + k*7) % n
			if strings.HasSuffix(ls[i], "\n") && !strings.HasSuffix(ls[i], "\r\n") {
				ls[i] = strings.TrimSuffix(ls[i], "\n") + "\r\n"
			}
		}
		return join(ls)
	case "cr_only":
		i := m.I % n
		ls := append([]string{}, lines...)
		ls[i] = strings.TrimSuffix(ls[i], "\n") + "\r"
		return join(ls)
	case "ws_before":
		return ws(m.I, m.N) + text
	case "blanks_in_begin_line":
		// blanks in front of the marker on the marker's own line (possibly behind whitespace lines). Whether that is
		// "whitespace before the header line" the statement does not say: the oracle tolerates acceptance (outer
		// whitespace is stripped before comparing) and only requires a rejection to be an *armor.Error
		blank := []string{" ", "\t"}[m.B%2]
		pre := ""
		if m.I%3 == 0 {
			pre = "\n \n"
		}
		return pre + strings.Repeat(blank, m.N) + text
	case "stride65":
		// short and empty body lines laid out so that a line end still falls on every 65th byte of the body (where the
		// line ends of full lines are): five 12-column lines; a 60-column line and four empty ones; 32- and 31-column
		// lines in turn. Inserted in front of the body, one to three times.
		if n < 2 {
			return text
		}
		q := "QUJD"
		block := []string{
			strings.Repeat(strings.Repeat(q, 3)+"\n", 5),
			strings.Repeat(q, 15) + "\n\n\n\n\n",
			strings.Repeat(strings.Repeat(q, 8)+"\n"+strings.Repeat(q, 8)[:31]+"\n", 4),
			"\n\n\n\n" + strings.Repeat(q, 15) + "\n",
		}[m.N%4]
		return lines[0] + strings.Repeat(block, 1+m.N/4) + join(lines[1:])
	case "blanks_in_end_line":
		if n == 0 {
			return text
		}
		ls := append([]string{}, lines...)
		blank := []string{" ", "\t"}[m.B%2]
		ls[n-1] = strings.TrimSuffix(ls[n-1], "\n") + strings.Repeat(blank, m.N) + "\n"
		return join(ls)
	case "ws_after":
		return text + ws(m.I, m.N)
	case "ws_lines_before":
		return strings.Repeat(" \t\n", m.N/3) + strings.Repeat("\n", m.N%3) + text
	case "garbage_before":
		return "hello\n" + text
	case "garbage_after":
		return text + "x\n"
	case "pem_header":
		ls := append(append(append([]string{}, lines[:1]...), "Proc-Type: 4,ENCRYPTED\n", "\n"), lines[1:]...)
		return join(ls)
	case "pad_move":
		// move trailing '=' of the last body line to its own line
		if n < 3 || !strings.Contains(lines[n-2], "=") {
			return text
		}
		l := strings.TrimSuffix(lines[n-2], "\n")
		k := strings.Index(l, "=")
		ls := append(append(append([]string{}, lines[:n-2]...), l[:k]+"\n", l[k:]+"\n"), lines[n-1:]...)
		return join(ls)
	case "pad_strip":
		if n < 3 {
			return text
		}
		ls := append([]string{}, lines...)
		ls[n-2] = strings.TrimRight(strings.TrimSuffix(ls[n-2], "\n"), "=") + "\n"
		return join(ls)
	case "pad_extra":
		if n < 3 {
			return text
		}
		ls := append([]string{}, lines...)
		ls[n-2] = strings.TrimSuffix(ls[n-2], "\n") + "=\n"
		return join(ls)
	case "lower_header":
		ls := append([]string{}, lines...)
		ls[0] = strings.ToLower(ls[0])
		return join(ls)
	case "space_eol":
		i := m.I % n
		ls := append([]string{}, lines...)
		ls[i] = strings.TrimSuffix(ls[i], "\n") + " \n"
		return join(ls)
	case "empty_line":
		i := m.I % (n + 1)
		ls := append(append(append([]string{}, lines[:i]...), "\n"), lines[i:]...)
		return join(ls)
	case "no_final_lf":
		return strings.TrimSuffix(text, "\n")
	case "dup_footer":
		return text + lines[n-1]
	case "wrong_type":
		return strings.ReplaceAll(text, "AGE ENCRYPTED FILE", "AGE ENCRYPTED FILES")
	case "short_mid":
		// make a middle body line short but valid base64 (drop 4 chars)
		if n < 4 {
			return text
		}
		i := 1 + m.I%(n-3)
		ls := append([]string{}, lines...)
		if len(ls[i]) > 8 {
			ls[i] = ls[i][4:]
		}
		return join(ls)
	case "long_line":
		// join two full lines into one 128-column line
		if n < 4 {
			return text
		}
		i := 1 + m.I%(n-3)
		ls := append(append(append([]string{}, lines[:i]...), strings.TrimSuffix(lines[i], "\n")+lines[i+1]), lines[i+2:]...)
		return join(ls)
	}
	return text
}

type C08Plan struct {
	Mode     string        `json:"mode"` // "encode" | "decode" | "large32" (thorough: the armor writer built for a 32-bit GOARCH, past 2^31 output columns, in its own process)
	MiB      int           `json:"mib,omitempty"`
	DSeed    uint64        `json:"dseed"`
	DLen     int           `json:"dlen"`
	Segs     []int         `json:"segs"` // encode: write segmentation; nil/empty = no Write at all
	NilWrite bool          `json:"nil_write,omitempty"`
	Muts     []ArmorMut    `json:"muts,omitempty"`
	Sweep    bool          `json:"sweep,omitempty"` // decode: every truncation length and every byte substituted by a few values
	Delivery seam.Delivery `json:"delivery"`
	Reads    lib.ReadSched `json:"reads"`
}

type C08 struct{}

func (C08) ID() string           { return "C08" }
func (C08) Title() string        { return "armor write schedules and line-level transport corruption" }
func (C08) NewPlan() interface{} { return &C08Plan{} }
func (C08) Runs(tier string) int {
	if tier == "thorough" {
		return 3000000
	}
	return 120000
}

func (C08) Meta() core.Meta {
	return core.Meta{
		Level:       "exploration",
		Rule:        "encode case = (data length incl. 0 and around multiples of 3 and 48, sequence of Write calls incl. none / only empty writes / 1-byte writes, Close) checked against the reference armor and de-armored under a delivery+read schedule; decode case = canonical armor of random data with 1..3 transport corruptions (line drop/dup/swap/split/join, byte flip/substitution, truncation, CRLF on all/some lines, lone CR, whitespace before/after around the 1024-byte bound, garbage, PEM headers, padding moved/stripped/added, short middle line, long line, ...) read under a schedule; sweep runs enumerate every truncation length, every deleted byte, 6 inserted bytes at every offset and 5 substitutions of every byte of a small text. Non-trivial = text differs from canonical armor (decode) or has at least one Write call (encode); distinct = distinct (length, schedule, corruption list).",
		Assumptions: []string{"documented tolerances are exactly: CRLF line ends, whitespace before the BEGIN line and after the END line (ASCII whitespace generated)", "reference armor codec (sim/ref) validated on the CCTV armor vectors"},
		Real:        []string{"armor.NewWriter", "armor.NewReader", "internal/format WrappedBase64Encoder"},
		Stub:        []string{"destination (bytes recorder)", "text source with delivery schedule (SimSource)", "transport corruptor"},
		FaultKinds:  prefixAll("fault.", armorMutKinds[1:]),
		Probes:      []string{"probe.no_write_before_close", "probe.only_empty_writes", "probe.len_multiple_of_48", "probe.short_last_line", "probe.accepted_noncanonical_but_tolerated", "probe.accepted_canonical", "probe.rejected", "probe.ws_bound_1024", "probe.sweep_truncs", "probe.sweep_substs", "probe.large_stream_32bit_int"},
	}
}

func prefixAll(p string, xs []string) []string {
	var out []string
	for _, x := range xs {
		out = append(out, p+x)
	}
	return out
}

func (C08) Generate(r *core.RNG, tier string, idx uint64) interface{} {
	p := &C08Plan{DSeed: r.U64() % 100000}
	p.Delivery = seam.GenDelivery(r)
	p.Reads = lib.GenReadSched(r)
	switch r.Intn(5) {
	case 0:
		p.DLen = r.Pick(0, 0, 1, 2, 3, 4, 47, 48, 49, 95, 96, 97)
	case 1:
		p.DLen = 48*r.Range(0, 20) + r.Range(-1, 1)
		if p.DLen < 0 {
			p.DLen = 0
		}
	default:
		p.DLen = r.Intn(700)
	}
	if tier == "thorough" && idx%200000 == 5 && os.Getenv("AGE_ARMOR32_BIN") != "" {
		// the writer's bookkeeping over a stream longer than a 32-bit int can count
		return &C08Plan{Mode: "large32", DSeed: r.U64() % 100000, MiB: r.Pick(1537, 1540, 1600, 3080)}
	}
	if idx%3 == 0 {
		p.Mode = "encode"
		switch r.Intn(6) {
		case 0:
			p.Segs = nil // no Write at all
		case 1:
			p.Segs = nil
			p.NilWrite = true // only Write(nil)
		default:
			p.Segs = genSmallSegs(r, p.DLen)
		}
		if len(p.Segs) == 0 {
			p.DLen = 0
		}
		return p
	}
	p.Mode = "decode"
	if idx%200 == 1 {
		p.Sweep = true
		p.DLen = r.Pick(0, 1, 46, 47, 48, 49, 94, 95, 100)
		return p
	}
	n := r.Range(1, 3)
	if r.Chance(2, 3) {
		n = 1
	}
	for i := 0; i < n; i++ {
		p.Muts = append(p.Muts, genArmorMut(r))
	}
	return p
}

func genSmallSegs(r *core.RNG, n int) []int {
	var segs []int
	rem := n
	mode := r.Intn(5)
	for rem > 0 {
		var s int
		switch mode {
		case 0:
			s = rem
		case 1:
			s = 1
		case 2:
			s = r.Pick(2, 3, 4, 47, 48, 49)
		case 3:
			s = 1 + r.Intn(100)
		default:
			s = r.Pick(0, 0, 1, 3, 48, 96, 200)
		}
		if s > rem {
			s = rem
		}
		segs = append(segs, s)
		rem -= s
	}
	if n == 0 || r.Chance(1, 4) {
		segs = append(segs, 0)
	}
	return segs
}

func (C08) Shrinks(plan interface{}) []interface{} {
	p := plan.(*C08Plan)
	if p.Mode == "large32" {
		if p.MiB > 1537 {
			q := *p
			q.MiB = 1537
			return []interface{}{&q}
		}
		return nil
	}
	var out []interface{}
	add := func(f func(q *C08Plan)) {
		q := *p
		q.Segs = append([]int(nil), p.Segs...)
		q.Muts = append([]ArmorMut(nil), p.Muts...)
		f(&q)
		out = append(out, &q)
	}
	if len(p.Muts) > 1 {
		for i := range p.Muts {
			i := i
			add(func(q *C08Plan) { q.Muts = append(q.Muts[:i:i], q.Muts[i+1:]...) })
		}
	}
	if p.DLen > 0 {
		add(func(q *C08Plan) { q.DLen = 0; q.Segs = trimSegs(q.Segs, 0) })
		add(func(q *C08Plan) { q.DLen /= 2; q.Segs = trimSegs(q.Segs, q.DLen) })
		add(func(q *C08Plan) { q.DLen--; q.Segs = trimSegs(q.Segs, q.DLen) })
	}
	if len(p.Segs) > 1 {
		add(func(q *C08Plan) { q.Segs = []int{q.DLen} })
	}
	if p.Delivery.Mode != "whole" || p.Delivery.Bufio != 0 || p.Delivery.EOFWith {
		add(func(q *C08Plan) { q.Delivery = seam.Delivery{Mode: "whole"} })
	}
	if p.Reads.Mode != "all" {
		add(func(q *C08Plan) { q.Reads = lib.ReadSched{Mode: "all"} })
	}
	for i, m := range p.Muts {
		i := i
		if m.N > 1 {
			add(func(q *C08Plan) { q.Muts[i].N = 1 })
		}
	}
	return out
}

func trimSegs(segs []int, n int) []int {
	if len(segs) == 0 {
		return segs
	}
	var out []int
	rem := n
	for _, s := range segs {
		if s < 0 {
			out = append(out, s)
			return out
		}
		if s > rem {
			s = rem
		}
		out = append(out, s)
		rem -= s
	}
	if rem > 0 {
		out = append(out, rem)
	}
	return out
}

// dearmorOutcome reads text through the real armor reader under a schedule.
func dearmorOutcome(text []byte, d seam.Delivery, rs lib.ReadSched, log *core.Log) *lib.DecResult {
	src := seam.NewSource(text, d, nil, log)
	res := &lib.DecResult{}
	lib.Drain(armor.NewReader(src.Reader()), rs, res, nil)
	return res
}

// checkDearmor is the decode-side oracle for one text.
func checkDearmor(text string, res *lib.DecResult, c *core.Ctx) *core.Verdict {
	if res.BadRead != "" {
		return core.Fail("C08.badread", "%s", res.BadRead)
	}
	if res.Err == io.EOF {
		canon := ref.Armor(res.Released)
		if ref.NormaliseArmor(text) != canon {
			return core.Fail("C08.noncanonical_accepted", "armor reader accepted to the end (%d bytes) a text that does not re-armor to itself up to CRLF and outer whitespace: %q", len(res.Released), clip(text))
		}
		if text == canon {
			c.Stats.Inc("probe.accepted_canonical")
		} else {
			c.Stats.Inc("probe.accepted_noncanonical_but_tolerated")
		}
		if !res.Sticky {
			return core.Fail("C08.eof_notsticky", "after a clean end the reader does not keep returning EOF: %s", res.StickyNote)
		}
		return nil
	}
	c.Stats.Inc("probe.rejected")
	var ae *armor.Error
	if !errors.As(res.Err, &ae) {
		return core.Fail("C08.error_type", "armor reader failed with %T (%v), not *armor.Error, on %q", res.Err, res.Err, clip(text))
	}
	if !res.Sticky {
		return core.Fail("C08.notsticky", "armor reader that failed does not keep failing: %s", res.StickyNote)
	}
	// what was released before the error must be a prefix of what a tolerant strict decoder sees, if the text has a decodable prefix
	return nil
}

func clip(s string) string {
	if len(s) > 160 {
		return s[:80] + "..." + s[len(s)-60:]
	}
	return s
}

func (e C08) Execute(plan interface{}, c *core.Ctx) *core.Verdict {
	p := plan.(*C08Plan)
	if p.Mode == "large32" {
		return e.execLarge32(p, c)
	}
	data := core.Pattern(p.DSeed, p.DLen)
	if p.Mode == "encode" {
		var buf bytes.Buffer
		w := armor.NewWriter(&buf)
		off := 0
		calls := 0
		if p.NilWrite {
			n, err := w.Write(nil)
			calls++
			if n != 0 || err != nil {
				return core.Fail("C08.write_result", "Write(nil) returned (%d,%v)", n, err)
			}
		}
		for _, s := range p.Segs {
			if off+s > len(data) {
				s = len(data) - off
			}
			// the caller reuses one scratch buffer, as a copy loop does: what was handed to Write is overwritten
			// as soon as Write has returned (io.Writer must not retain it)
			scratch := append(make([]byte, 0, s+7), data[off:off+s]...)
			n, err := w.Write(scratch)
			for i := range scratch[:cap(scratch)] {
				scratch[:cap(scratch)][i] = 0xAA
			}
			calls++
			c.Log.Add("armor.Write(%d) -> (%d,%v)", s, n, err)
			if n != s || err != nil {
				return core.Fail("C08.write_result", "armor Write(%d bytes) returned (%d,%v)", s, n, err)
			}
			off += s
		}
		data = data[:off]
		if err := w.Close(); err != nil {
			return core.Fail("C08.close_error", "armor Close failed: %v", err)
		}
		c.Stats.Eval(fmt.Sprintf("enc|%d|%v|%v", len(data), p.Segs, p.NilWrite), calls > 0)
		switch {
		case calls == 0:
			c.Stats.Inc("probe.no_write_before_close")
		case len(data) == 0:
			c.Stats.Inc("probe.only_empty_writes")
		}
		if len(data)%48 == 0 && len(data) > 0 {
			c.Stats.Inc("probe.len_multiple_of_48")
		} else if len(data) > 0 {
			c.Stats.Inc("probe.short_last_line")
		}
		text := buf.String()
		if want := ref.Armor(data); text != want {
			return core.Fail("C08.encode_mismatch", "armoring %d bytes with writes %v (nil write: %v) gives %q, the format prescribes %q", len(data), p.Segs, p.NilWrite, clip(text), clip(want))
		}
		res := dearmorOutcome([]byte(text), p.Delivery, p.Reads, c.Log)
		if res.Err != io.EOF || !bytes.Equal(res.Released, data) {
			return core.Fail("C08.roundtrip", "own armor of %d bytes does not de-armor to them under %s: released %d, err %v", len(data), p.Delivery, len(res.Released), res.Err)
		}
		return nil
	}
	canon := ref.Armor(data)
	try := func(text string, sig string) *core.Verdict {
		if len(text) == 0 {
			text = "\n"
		}
		res := dearmorOutcome([]byte(text), p.Delivery, p.Reads, nil)
		c.Log.Add("dearmor %s -> released=%d err=%v", sig, len(res.Released), res.Err)
		c.Stats.Eval(fmt.Sprintf("dec|%d|%s|%s", p.DLen, sig, p.Delivery), text != canon)
		return checkDearmor(text, res, c)
	}
	if p.Sweep {
		for i := 0; i < len(canon); i++ {
			c.Stats.Inc("probe.sweep_truncs")
			if v := try(canon[:i], fmt.Sprintf("trunc@%d", i)); v != nil {
				v.Narrow = &C08Plan{Mode: "decode", DSeed: p.DSeed, DLen: p.DLen, Muts: []ArmorMut{{Kind: "trunc", I: i}}, Delivery: p.Delivery, Reads: p.Reads}
				return v
			}
			// deletion of this byte, insertion of a few bytes in front of it
			if v := try(canon[:i]+canon[i+1:], fmt.Sprintf("del@%d", i)); v != nil {
				v.Narrow = nil
				return v
			}
			for _, b := range []byte{'\n', ' ', '=', 'A', '\r', '-'} {
				if v := try(canon[:i]+string(b)+canon[i:], fmt.Sprintf("ins@%d=%d", i, b)); v != nil {
					v.Narrow = nil
					return v
				}
			}
			// the neighbouring characters of the base64 alphabet: same high bits, other low bits (non-canonical
			// trailing bits when it is the last character before the padding)
			const b64abc = "ABCDEFGHIJKLMNOPQRSTUVWXYZabcdefghijklmnopqrstuvwxyz0123456789+/"
			if k := strings.IndexByte(b64abc, canon[i]); k >= 0 {
				for _, d := range []int{1, 2, 3, 4, 8, 16} {
					t := canon[:i] + string(b64abc[k^d]) + canon[i+1:]
					if v := try(t, fmt.Sprintf("b64bit@%d^%d", i, d)); v != nil {
						v.Narrow = &C08Plan{Mode: "decode", DSeed: p.DSeed, DLen: p.DLen, Muts: []ArmorMut{{Kind: "bytesub", I: i, B: int(b64abc[k^d])}}, Delivery: p.Delivery, Reads: p.Reads}
						return v
					}
				}
			}
			for _, b := range []byte{'\n', ' ', '=', 'A', '\r'} {
				if canon[i] == b {
					continue
				}
				c.Stats.Inc("probe.sweep_substs")
				t := canon[:i] + string(b) + canon[i+1:]
				if v := try(t, fmt.Sprintf("sub@%d=%d", i, b)); v != nil {
					v.Narrow = &C08Plan{Mode: "decode", DSeed: p.DSeed, DLen: p.DLen, Muts: []ArmorMut{{Kind: "bytesub", I: i, B: int(b)}}, Delivery: p.Delivery, Reads: p.Reads}
					return v
				}
			}
		}
		return nil
	}
	text := canon
	for _, m := range p.Muts {
		if len(text) == 0 {
			break
		}
		text = applyArmorMut(text, m)
		if m.Kind == "ws_before" || m.Kind == "ws_after" || m.Kind == "ws_lines_before" {
			if m.N >= 1021 && m.N <= 1026 {
				c.Stats.Inc("probe.ws_bound_1024")
			}
		}
	}
	if text != canon {
		for _, m := range p.Muts {
			c.Stats.Inc("fault." + m.Kind)
		}
	}
	return try(text, fmt.Sprintf("%+v", p.Muts))
}

func newArmorReader(s *seam.SimSource) io.Reader { return armor.NewReader(s.Reader()) }

// execLarge32 runs cmd/armor32 (the real armor writer compiled for a 32-bit GOARCH, a seeded sequence of Write
// calls over more than 1.5 GiB, a strict streaming de-armorer as the destination) and takes its verdict.
func (e C08) execLarge32(p *C08Plan, c *core.Ctx) *core.Verdict {
	bin := os.Getenv("AGE_ARMOR32_BIN")
	if bin == "" {
		return core.Fail("harness", "AGE_ARMOR32_BIN not set (./check builds it for the thorough tier and for replays)")
	}
	out, err := exec.Command(bin, fmt.Sprint(p.DSeed), fmt.Sprint(p.MiB)).Output()
	if err != nil {
		return core.Fail("harness", "armor32: %v", err)
	}
	var res struct {
		OK      bool   `json:"ok"`
		Detail  string `json:"detail"`
		IntBits int    `json:"int_bits"`
		Plain   int64  `json:"plaintext_bytes"`
		Out     int64  `json:"output_bytes"`
		Writes  int    `json:"writes"`
	}
	if err := json.Unmarshal(out, &res); err != nil {
		return core.Fail("harness", "armor32 output %q: %v", out, err)
	}
	if res.IntBits != 32 {
		return core.Fail("harness", "armor32 was built with %d-bit int", res.IntBits)
	}
	c.Log.Add("armor32 seed=%d mib=%d: writes=%d plaintext=%d output=%d ok=%v %s", p.DSeed, p.MiB, res.Writes, res.Plain, res.Out, res.OK, res.Detail)
	c.Stats.Inc("probe.large_stream_32bit_int")
	c.Stats.Eval(fmt.Sprintf("large32|%d|%d", p.DSeed, p.MiB), true)
	if !res.OK {
		return core.Fail("C08.large_stream", "armor writer on a 32-bit platform, %d Write calls over %d bytes: %s", res.Writes, res.Plain, res.Detail)
	}
	return nil
}
