package engines

import (
	"bytes"
	"crypto/ed25519"
	"fmt"
	"reflect"

	"verif/sim/core"
	"verif/sim/lib"
	"verif/sim/ref"
	"verif/sim/seam"
	"verif/sim/world"
)

// Window is a region of the tape's output that ended up in a given role.
type Window struct {
	Role string
	Off  int
	Len  int
}

type Recovered struct {
	Header     *ref.Header
	HeaderLen  int
	FileKey    []byte
	Nonce      []byte
	Payload    []byte
	Windows    []Window
	RefStanzas []*ref.Stanza // what the reference model writes from the recovered values
	Secrets    [][]byte      // all per-file secret values in role order (for history checks)
}

// findWindow locates a value in the tape output: aligned reads of that length
// first, then every offset (read sizes and order are not prescribed).
func findWindow(t *seam.Tape, n int, ok func([]byte) bool, used []Window) (int, bool) {
	free := func(off int) bool {
		for _, u := range used {
			if off < u.Off+u.Len && u.Off < off+n {
				return false
			}
		}
		return true
	}
	for _, r := range t.Reads {
		if r.Len == n && r.Off+n <= len(t.Out) && free(r.Off) && ok(t.Out[r.Off:r.Off+n]) {
			return r.Off, true
		}
	}
	for off := 0; off+n <= len(t.Out); off++ {
		if free(off) && ok(t.Out[off:off+n]) {
			return off, true
		}
	}
	return 0, false
}

func stanzaEq(a, b *ref.Stanza) bool {
	return a.Type == b.Type && reflect.DeepEqual(append([]string{}, a.Args...), append([]string{}, b.Args...)) && bytes.Equal(a.Body, b.Body)
}

// Recover parses a binary file the library wrote under a tape and recovers, by
// role, every random value that went into it. prop is "C05" or "C06" (clause prefix).
func Recover(prop string, spec lib.FileSpec, bin []byte, t *seam.Tape) (*Recovered, *core.Verdict) {
	h, rest, err := ref.ParseHeader(bin)
	if err != nil {
		return nil, core.Fail(prop+".unparseable", "the reference parser rejects the header the library wrote for %s: %v", spec.Skeleton(), err)
	}
	rc := &Recovered{Header: h, HeaderLen: len(bin) - len(rest)}
	if len(rest) < 16+16 {
		return nil, core.Fail(prop+".short", "file for %s ends %d bytes after the header", spec.Skeleton(), len(rest))
	}
	rc.Nonce = rest[:16]
	rc.Payload = rest[16:]
	// walk recipients and stanzas together
	si := 0
	type slot struct {
		key world.Key
		st  *ref.Stanza
	}
	var slots []slot
	for ri, r := range spec.Recips {
		if r.Grease != nil {
			want := r.Grease.Recipient().Stanzas()
			for _, w := range want {
				if si >= len(h.Stanzas) {
					return nil, core.Fail(prop+".stanza_count", "header has %d stanzas, fewer than the recipients produced", len(h.Stanzas))
				}
				g := &ref.Stanza{Type: w.Type, Args: w.Args, Body: w.Body}
				if !stanzaEq(g, h.Stanzas[si]) {
					return nil, core.Fail(prop+".grease_altered", "stanza %d is not the stanza recipient #%d returned", si, ri)
				}
				rc.RefStanzas = append(rc.RefStanzas, g)
				si++
			}
			continue
		}
		if si >= len(h.Stanzas) {
			return nil, core.Fail(prop+".stanza_count", "header has %d stanzas, fewer than recipients", len(h.Stanzas))
		}
		slots = append(slots, slot{*r.Key, h.Stanzas[si]})
		rc.RefStanzas = append(rc.RefStanzas, nil)
		si++
	}
	if si != len(h.Stanzas) {
		return nil, core.Fail(prop+".stanza_count", "header has %d stanzas, recipients account for %d", len(h.Stanzas), si)
	}
	// file key: what each identity unwraps from its own stanza
	for i, s := range slots {
		fk, err := world.RefUnwrapper(s.key)([]*ref.Stanza{s.st})
		if err != nil {
			return nil, core.Fail(prop+".ref_cannot_open", "reference model cannot open the %s stanza written for recipient %s (stanza %d): %v", s.st.Type, s.key, i, err)
		}
		if rc.FileKey == nil {
			rc.FileKey = fk
		} else if !bytes.Equal(rc.FileKey, fk) {
			return nil, core.Fail(prop+".file_key_differs", "stanzas wrap different file keys")
		}
	}
	if !bytes.Equal(ref.HeaderMAC(rc.FileKey, h), h.MAC) {
		return nil, core.Fail(prop+".mac", "header MAC is not HMAC-SHA-256 under HKDF(file key, \"header\") of the header bytes")
	}
	missing := func(role string) *core.Verdict {
		return core.Fail(prop+".not_from_csprng", "%s of the file for %s is not found in the bytes drawn from crypto/rand (or overlaps another value's bytes): it is constant, derived, or shared", role, spec.Skeleton())
	}
	// locate values on the tape
	off, ok := findWindow(t, 16, func(b []byte) bool { return bytes.Equal(b, rc.FileKey) }, rc.Windows)
	if !ok {
		return rc, missing("file key")
	}
	rc.Windows = append(rc.Windows, Window{"file key", off, 16})
	rc.Secrets = append(rc.Secrets, rc.FileKey)
	ri := 0
	for i, r := range spec.Recips {
		_ = i
		if r.Grease != nil {
			ri += r.Grease.N
			continue
		}
		k := *r.Key
		st := h.Stanzas[ri]
		var refSt *ref.Stanza
		switch k.T {
		case "x":
			if st.Type != "X25519" || len(st.Args) != 1 {
				return rc, core.Fail(prop+".stanza_shape", "X25519 stanza shape: %s %v", st.Type, st.Args)
			}
			share, err := ref.UnB64(st.Args[0])
			if err != nil {
				return rc, core.Fail(prop+".stanza_shape", "X25519 share: %v", err)
			}
			off, ok := findWindow(t, 32, func(b []byte) bool { return bytes.Equal(ref.X25519Public(b), share) }, rc.Windows)
			if !ok {
				return rc, missing(fmt.Sprintf("ephemeral secret of X25519 stanza %d", ri))
			}
			rc.Windows = append(rc.Windows, Window{fmt.Sprintf("ephemeral[%d]", ri), off, 32})
			eph := t.Out[off : off+32]
			rc.Secrets = append(rc.Secrets, append([]byte(nil), eph...))
			refSt = ref.WrapX25519(rc.FileKey, eph, ref.X25519Public(world.X25519Secret(k.K)))
		case "e":
			if st.Type != "ssh-ed25519" || len(st.Args) != 2 {
				return rc, core.Fail(prop+".stanza_shape", "ssh-ed25519 stanza shape: %s %v", st.Type, st.Args)
			}
			share, err := ref.UnB64(st.Args[1])
			if err != nil {
				return rc, core.Fail(prop+".stanza_shape", "ssh-ed25519 share: %v", err)
			}
			off, ok := findWindow(t, 32, func(b []byte) bool { return bytes.Equal(ref.X25519Public(b), share) }, rc.Windows)
			if !ok {
				return rc, missing(fmt.Sprintf("ephemeral secret of ssh-ed25519 stanza %d", ri))
			}
			rc.Windows = append(rc.Windows, Window{fmt.Sprintf("ephemeral[%d]", ri), off, 32})
			eph := t.Out[off : off+32]
			rc.Secrets = append(rc.Secrets, append([]byte(nil), eph...))
			refSt = ref.WrapSSHEd25519(rc.FileKey, eph, world.EdKey(k.K).Public().(ed25519.PublicKey))
		case "s":
			if st.Type != "scrypt" || len(st.Args) != 2 {
				return rc, core.Fail(prop+".stanza_shape", "scrypt stanza shape: %s %v", st.Type, st.Args)
			}
			salt, err := ref.UnB64(st.Args[0])
			if err != nil || len(salt) != 16 {
				return rc, core.Fail(prop+".stanza_shape", "scrypt salt: %v", err)
			}
			off, ok := findWindow(t, 16, func(b []byte) bool { return bytes.Equal(b, salt) }, rc.Windows)
			if !ok {
				return rc, missing("scrypt salt")
			}
			rc.Windows = append(rc.Windows, Window{"salt", off, 16})
			rc.Secrets = append(rc.Secrets, salt)
			refSt = ref.WrapScrypt(rc.FileKey, salt, k.WF, world.Passphrases[k.K])
		case "r":
			if st.Type != "ssh-rsa" || len(st.Args) != 1 {
				return rc, core.Fail(prop+".stanza_shape", "ssh-rsa stanza shape: %s %v", st.Type, st.Args)
			}
			priv := world.RSAKey(k.K)
			if st.Args[0] != ref.SSHTag(ref.WireRSA(&priv.PublicKey)) {
				return rc, core.Fail(prop+".ssh_tag", "ssh-rsa tag %q is not base64(SHA-256(wire key)[:4])", st.Args[0])
			}
			msg, seed, err := ref.OAEPOpen(priv, st.Body, "age-encryption.org/v1/ssh-rsa")
			if err != nil || !bytes.Equal(msg, rc.FileKey) {
				return rc, core.Fail(prop+".oaep", "ssh-rsa body is not RSAES-OAEP(SHA-256, label age-encryption.org/v1/ssh-rsa) of the file key: %v", err)
			}
			off, ok := findWindow(t, 32, func(b []byte) bool { return bytes.Equal(b, seed) }, rc.Windows)
			if !ok {
				return rc, missing(fmt.Sprintf("OAEP seed of ssh-rsa stanza %d", ri))
			}
			rc.Windows = append(rc.Windows, Window{fmt.Sprintf("oaep-seed[%d]", ri), off, 32})
			rc.Secrets = append(rc.Secrets, seed)
			refSt = st // randomised padding: opened instead of reproduced
		}
		rc.RefStanzas[ri] = refSt
		ri++
	}
	off, ok = findWindow(t, 16, func(b []byte) bool { return bytes.Equal(b, rc.Nonce) }, rc.Windows)
	if !ok {
		return rc, missing("payload nonce")
	}
	rc.Windows = append(rc.Windows, Window{"nonce", off, 16})
	rc.Secrets = append(rc.Secrets, rc.Nonce)
	return rc, nil
}
