package engines

import (
	"bytes"
	"crypto/ed25519"
	"encoding/pem"
	"filippo.io/age"
	"filippo.io/age/agessh"
	"fmt"
	"io"
	"os"
	"os/exec"
	"path/filepath"
	"strings"
	"syscall"
	"time"
	"verif/sim/seam"

	"golang.org/x/crypto/ssh"

	"verif/sim/core"
	"verif/sim/lib"
	"verif/sim/ref"
	"verif/sim/world"
)

// C15 — CLI: exit status 0 if and only if the whole result was delivered.
// The process boundary is the seam: the real binaries run in a private
// directory; argv, files, fds and limits are fixed by the plan.

type OutFault struct {
	Kind string `json:"kind"` // "" fsize nodir isdir devfull closedpipe
	N    int    `json:"n,omitempty"`
}

type C15Plan struct {
	Op       string      `json:"op"`                  // encrypt decrypt keygen keygen-y
	Keys     []world.Key `json:"keys,omitempty"`      // encrypt: recipients; decrypt: file's recipients
	IdKey    int         `json:"id_key"`              // decrypt: which of Keys the identity file holds; -1: an outsider (no match)
	ExtraIDs int         `json:"extra_ids,omitempty"` // decrypt: non-matching identity files given first
	RecipVia string      `json:"recip_via,omitempty"` // encrypt: "-r" | "-R" | "-i" (-e -i)
	Armor    bool        `json:"armor,omitempty"`
	PLen     int         `json:"plen"`
	ZTail    int         `json:"ztail,omitempty"` // the plaintext ends in this many zero bytes
	PSeed    uint64      `json:"pseed"`
	Tape     uint64      `json:"tape,omitempty"`
	InVia    string      `json:"in_via"`           // file | stdin
	OutVia   string      `json:"out_via"`          // file (-o) | stdout (pipe) | stdout-file (stdout redirected to a file)
	Dash     bool        `json:"dash,omitempty"`   // spell stdin as the input name "-" and stdout as "-o -"
	Damage   string      `json:"damage,omitempty"` // decrypt: header payload trunc
	Fault    OutFault    `json:"fault"`
	Sweep    bool        `json:"sweep,omitempty"` // fsize = every n in 0..len(output)
	PreExist bool        `json:"pre_exist,omitempty"`
	PreLink  bool        `json:"pre_link,omitempty"`  // the pre-existing -o name is a symbolic link to the existing file
	PreEmpty bool        `json:"pre_empty,omitempty"` // the pre-existing file has length 0
	SameAs   string      `json:"same_as,omitempty"`   // -o names: input | identity | recipients
	Spelling string      `json:"spelling,omitempty"`  // dot | dotdot | abs | plain
	Umask    int         `json:"umask,omitempty"`
	NKeys    int         `json:"nkeys,omitempty"`     // keygen-y: identities in the input
	Answer   string      `json:"answer,omitempty"`    // decrypt-p: right | wrong | empty | hangup ; encrypt-p: match | mismatch (typed at the passphrase prompt on the pseudo-terminal)
	RaceAt   string      `json:"race_at,omitempty"`   // keygen-race: open | mid  (when the competing creator acts)
	RaceKind string      `json:"race_kind,omitempty"` // keygen-race: file | symlink | hardlink
}

type C15 struct{}

func (C15) ID() string { return "C15" }
func (C15) Title() string {
	return "process sandbox: the real age and age-keygen binaries under output faults, damaged inputs and pre-existing files"
}
func (C15) NewPlan() interface{} { return &C15Plan{} }
func (C15) Runs(tier string) int {
	if tier == "thorough" {
		return 50000
	}
	return 2000
}

func (C15) Meta() core.Meta {
	return core.Meta{
		Level:       "fault_enumeration",
		Rule:        "a case = one process run of the real binary: operation (encrypt with -r/-R/-e -i, decrypt with -i incl. several identity files, keygen, keygen -y), key types (X25519, ssh-ed25519, ssh-rsa), armor, input size 0..3 chunks from file or pre-filled pipe, output to -o file / pipe / redirected file, damaged input (header flip, payload flip, truncation, truncation exactly at a chunk boundary), pre-existing output, -o naming the input / an identity file / a recipients file under ./x, d/../x, absolute, and non-canonical absolute (/./, /d/../, //) spellings, and one output fault: RLIMIT_FSIZE=n (sweep runs: every n in 0..len(output)), missing parent directory, target is a directory, /dev/full, stdout pipe closed before start; or (keygen-race) a second actor that creates the -o name (regular file, symbolic link or hard link, exclusively) at the moment age-keygen -y opens its FIFO input or after half of the input. Oracle: a name another party managed to create is never replaced or written through, and then the status is non-zero; exit 0 => destination holds the complete result (decrypt: == P; encrypt: reference model decrypts it to the input; keygen: parseable key file, mode 0600; keygen -y: all recipient lines); no fault and valid input => exit 0; header-level refusal => -o neither created nor modified; payload failure => output is a prefix of P; same-file => refused, files intact; keygen -o existing => refused, intact. Non-trivial = a fault, damage, pre-existing or same-file condition is present; distinct = distinct plans.",
		Assumptions: []string{"kernel, file system and process scheduling are real and not controlled; nothing in the oracle depends on timing (pipes are pre-filled or closed before start)", "passphrase flows (age -p, age -d of a passphrase file) run on a pseudo-terminal the simulator types into: right / wrong / empty passphrase, terminal hang-up, confirmation mismatch", "runs as root: permission-denied destinations are not generated", "a death by signal (SIGXFSZ, SIGPIPE) counts as a non-zero status", "the key age-keygen generates comes from the child process's real CSPRNG: its value is checked for consistency, never logged or compared between runs"},
		Real:        []string{"cmd/age and cmd/age-keygen binaries built from the working tree", "Linux kernel: files, pipes, RLIMIT_FSIZE, /dev/full"},
		Stub:        []string{"argv, environment, input files, identity/recipient files, file descriptors and limits (the plan)"},
		FaultKinds:  []string{"fault.fsize", "fault.nodir", "fault.isdir", "fault.devfull", "fault.closedpipe", "fault.damage_header", "fault.damage_payload", "fault.damage_trunc", "fault.damage_trunc_chunk", "fault.no_matching_identity", "fault.competing_creator", "fault.passphrase_wrong", "fault.passphrase_empty", "fault.passphrase_hangup", "fault.passphrase_mismatch", "fault.passphrase_notmine", "fault.fifo_reader_leaves", "fault.in_isdir", "fault.in_stdin_unreadable"},
		Probes:      []string{"probe.stdin_delivered_in_pieces_with_pauses", "probe.exit0_complete", "probe.exit_nonzero", "probe.killed_by_signal", "probe.same_file_refused", "probe.pre_existing_output", "probe.keygen_mode_checked", "probe.empty_plaintext", "probe.multi_chunk", "probe.fsize_limit_below_output", "probe.fsize_limit_at_or_above_output", "probe.header_refusal_output_untouched", "probe.partial_output_is_prefix", "probe.stdin_input", "probe.several_identity_files", "probe.dash_names", "probe.pre_existing_symlink", "probe.race_competitor_refused", "probe.race_competitor_created", "probe.passphrase_on_pseudo_terminal", "probe.output_not_a_regular_file"},
	}
}

func genCLIKeys(r *core.RNG, n int) []world.Key {
	var ks []world.Key
	for i := 0; i < n; i++ {
		switch r.Intn(4) {
		case 0, 1:
			ks = append(ks, world.Key{T: "x", K: r.Intn(world.NX25519)})
		case 2:
			ks = append(ks, world.Key{T: "e", K: r.Intn(world.NEd)})
		default:
			ks = append(ks, world.Key{T: "r", K: r.Intn(world.NRSA)})
		}
	}
	return ks
}

func (C15) Generate(r *core.RNG, tier string, idx uint64) interface{} {
	p := &C15Plan{PSeed: r.U64() % 100000, Tape: r.U64() % 100000, IdKey: 0}
	switch r.Intn(10) {
	case 0, 1, 2:
		p.Op = "encrypt"
	case 3, 4, 5, 6:
		p.Op = "decrypt"
	case 7, 8:
		p.Op = "keygen"
	default:
		p.Op = "keygen-y"
		if r.Chance(1, 3) {
			// a second actor creates the -o name while age-keygen -y is waiting for its input
			p.Op = "keygen-race"
			p.RaceAt = []string{"open", "mid"}[r.Intn(2)]
			p.RaceKind = []string{"file", "file", "symlink", "hardlink"}[r.Intn(4)]
		}
	}
	p.PLen = r.Pick(0, 0, 1, 5, 100, 100, 4096, 65536, 65537, 140000)
	if r.Chance(1, 6) {
		// data that ends in zeros (or is nothing else): what a copy loop hands over last is an all-zero buffer
		p.PLen = r.Pick(32768, 65536, 80000, 196608)
		p.ZTail = r.Pick(4096, 40000, 65536, 1<<20)
	}
	p.Armor = r.Chance(1, 3)
	p.InVia = []string{"file", "file", "stdin", "stdin-pieces"}[r.Intn(4)]
	p.OutVia = []string{"file", "file", "stdout", "stdout-file"}[r.Intn(4)]
	p.Keys = genCLIKeys(r, r.Range(1, 3))
	p.RecipVia = []string{"-r", "-R", "-i"}[r.Intn(3)]
	p.Umask = r.Pick(0, 0o22, 0o77, 0o27, 0o07, 0o26, 0o02)
	p.Dash = r.Chance(1, 4)
	p.NKeys = r.Range(1, 3)
	if p.Op == "decrypt" {
		p.IdKey = r.Intn(len(p.Keys))
		p.ExtraIDs = r.Pick(0, 0, 1, 2)
		switch r.Intn(9) {
		case 8:
			p.Damage = "trunc_chunk"
		case 0:
			p.Damage = "header"
		case 1:
			p.Damage = "payload"
		case 2:
			p.Damage = "trunc"
		case 3:
			p.IdKey = -1
		}
	}
	switch r.Intn(12) {
	case 0, 1:
		p.Fault = OutFault{Kind: "fsize", N: r.Intn(400)}
		if r.Bool() {
			p.Fault.N = r.Pick(0, 1, 65535, 65536, 65552, 100000)
		}
		if p.OutVia == "stdout" {
			p.OutVia = "stdout-file"
		}
	case 2:
		p.Fault = OutFault{Kind: "nodir"}
		p.OutVia = "file"
	case 3:
		p.Fault = OutFault{Kind: "isdir"}
		p.OutVia = "file"
	case 4:
		p.Fault = OutFault{Kind: "devfull"}
	case 5:
		p.Fault = OutFault{Kind: "closedpipe"}
		p.OutVia = "stdout"
	case 6:
		if p.Op == "encrypt" || p.Op == "decrypt" {
			p.SameAs = []string{"input", "identity", "recipients"}[r.Intn(3)]
			p.Spelling = []string{"dot", "dotdot", "abs", "plain", "abs-dot", "abs-dotdot", "abs-slashes"}[r.Intn(7)]
			p.OutVia = "file"
			p.InVia = "file"
		}
	case 7:
		p.PreExist = true
		p.PreLink = r.Chance(1, 3)
		p.PreEmpty = r.Chance(1, 2)
		p.OutVia = "file"
	}
	if p.Fault.Kind == "" && p.SameAs == "" && (p.Op == "encrypt" || p.Op == "decrypt") && r.Chance(1, 12) {
		// the INPUT cannot be read: it names a directory, or standard input is not open for reading
		p.Fault = OutFault{Kind: []string{"in_isdir", "in_stdin_unreadable"}[r.Intn(2)]}
		p.Damage = ""
		if p.IdKey < 0 {
			p.IdKey = 0
		}
		p.InVia = map[string]string{"in_isdir": "file", "in_stdin_unreadable": "stdin"}[p.Fault.Kind]
		p.Dash = false
	}
	if p.Fault.Kind == "" && p.SameAs == "" && !p.PreExist && (p.Op == "encrypt" || p.Op == "decrypt") && r.Chance(1, 6) {
		// -o names something that is not a regular file: a FIFO somebody reads, /dev/stdout (a pipe), /dev/null
		p.OutVia = []string{"fifo", "fifo", "devstdout", "devnull", "fifo-early"}[r.Intn(5)]
		p.Dash = false
		if p.OutVia == "fifo-early" {
			// the reader takes 1000 bytes and leaves, the result is far larger than a pipe holds: it cannot be
			// fully written, which must end in a non-zero status (not in status 0, and not in no status at all)
			p.PLen = 300000
			p.Damage = ""
			if p.IdKey < 0 {
				p.IdKey = 0
			}
		}
	}
	if p.Fault.Kind == "" && p.SameAs == "" && r.Chance(1, 10) {
		// passphrase flows: the prompts are answered on a pseudo-terminal
		p.Op = "decrypt-p"
		p.Answer = []string{"right", "right", "wrong", "wrong", "empty", "hangup"}[r.Intn(6)]
		p.PLen = r.Pick(0, 1, 100, 70000)
		p.Sweep = false
		if r.Chance(1, 6) {
			p.Op = "encrypt-p"
			p.Answer = []string{"match", "mismatch"}[r.Intn(2)]
			p.PLen = r.Pick(0, 1, 100)
		} else if r.Chance(1, 3) {
			// a passphrase-protected SSH key file as -i: asked for only if the file is addressed to it
			p.Op = "decrypt-sshenc"
			p.Answer = []string{"right", "wrong", "notmine", "notmine", "hangup"}[r.Intn(5)]
			p.Keys = []world.Key{{T: []string{"e", "r"}[r.Intn(2)], K: 0}}
		}
	}
	if p.Op == "keygen-race" {
		p.Fault, p.SameAs, p.PreExist, p.PreLink = OutFault{}, "", false, false
	}
	if idx%12 == 5 && (p.Fault.Kind == "" || p.Fault.Kind == "fsize") && p.SameAs == "" && p.Op != "keygen-race" && p.Op != "decrypt-p" && p.Op != "encrypt-p" && p.Op != "decrypt-sshenc" && p.OutVia != "fifo" && p.OutVia != "fifo-early" && p.OutVia != "devstdout" && p.OutVia != "devnull" {
		// exhaustive: every byte offset at which a size-limited output can fail
		p.Sweep = true
		p.Fault = OutFault{Kind: "fsize"}
		p.PLen = r.Pick(0, 1, 30, 150)
		p.Damage = ""
		if p.IdKey < 0 {
			p.IdKey = 0
		}
		p.PreExist = false
		if p.OutVia == "stdout" {
			p.OutVia = "stdout-file"
		}
		if len(p.Keys) > 1 {
			p.Keys = p.Keys[:1]
			p.IdKey = 0
		}
	}
	return p
}

func (C15) Shrinks(plan interface{}) []interface{} {
	p := plan.(*C15Plan)
	var out []interface{}
	add := func(f func(q *C15Plan)) {
		q := *p
		q.Keys = append([]world.Key(nil), p.Keys...)
		f(&q)
		out = append(out, &q)
	}
	if len(p.Keys) > 1 {
		add(func(q *C15Plan) {
			k := q.Keys[0]
			if q.IdKey >= 0 && q.IdKey < len(q.Keys) {
				k = q.Keys[q.IdKey]
			}
			q.Keys = []world.Key{k}
			if q.IdKey > 0 {
				q.IdKey = 0
			}
		})
	}
	if p.ExtraIDs > 0 {
		add(func(q *C15Plan) { q.ExtraIDs = 0 })
	}
	if p.Armor {
		add(func(q *C15Plan) { q.Armor = false })
	}
	if p.PLen > 0 {
		add(func(q *C15Plan) { q.PLen = 0 })
		add(func(q *C15Plan) { q.PLen = 1 })
		add(func(q *C15Plan) { q.PLen /= 2 })
	}
	if p.InVia != "file" {
		add(func(q *C15Plan) { q.InVia = "file" })
	}
	if p.PreExist {
		add(func(q *C15Plan) { q.PreExist = false })
	}
	if p.PreEmpty {
		add(func(q *C15Plan) { q.PreEmpty = false })
	}
	if p.Umask != 0 {
		add(func(q *C15Plan) { q.Umask = 0 })
	}
	if p.Spelling != "" && p.Spelling != "plain" {
		add(func(q *C15Plan) { q.Spelling = "plain" })
	}
	return out
}

// ---------- key material as the CLI wants it ----------

func cliRecipientString(k world.Key) string {
	switch k.T {
	case "x":
		return ref.Bech32Encode("age", ref.X25519Public(world.X25519Secret(k.K)))
	case "e":
		pk, _ := ssh.NewPublicKey(world.EdKey(k.K).Public())
		return strings.TrimSpace(string(ssh.MarshalAuthorizedKey(pk)))
	case "r":
		pk, _ := ssh.NewPublicKey(&world.RSAKey(k.K).PublicKey)
		return strings.TrimSpace(string(ssh.MarshalAuthorizedKey(pk)))
	}
	panic("bad key")
}

func cliIdentityFile(k world.Key) []byte {
	switch k.T {
	case "x":
		return []byte("# test key\n" + strings.ToUpper(ref.Bech32Encode("AGE-SECRET-KEY-", world.X25519Secret(k.K))) + "\n")
	case "e":
		blk, err := ssh.MarshalPrivateKey(ed25519.PrivateKey(world.EdKey(k.K)), "")
		if err != nil {
			panic(err)
		}
		return pem.EncodeToMemory(blk)
	case "r":
		return world.Fixture(fmt.Sprintf("rsa%d.pem", k.K))
	}
	panic("bad key")
}

type procResult struct {
	exit    int
	signal  bool
	stdout  []byte
	stderr  string
	timeout bool
}

// runProcStdinFile, when set, becomes the child's standard input as it is (for descriptors that cannot be read).
var runProcStdinFile *os.File

// runProcStdinPieces, when set, delivers the standard input through the pipe in pieces of these sizes (the rest in
// one last piece) with a pause in front of each but the first: what a slow producer at the other end of a pipe does.
var runProcStdinPieces []int

type piecesReader struct {
	data  []byte
	sizes []int
	n     int
}

func (p *piecesReader) Read(b []byte) (int, error) {
	if len(p.data) == 0 {
		return 0, io.EOF
	}
	if p.n > 0 {
		time.Sleep(40 * time.Millisecond)
	}
	k := len(p.data)
	if p.n < len(p.sizes) && p.sizes[p.n] < k {
		k = p.sizes[p.n]
	}
	if k > len(b) {
		k = len(b)
	}
	p.n++
	copy(b, p.data[:k])
	p.data = p.data[k:]
	return k, nil
}

// runProcTimeout is how long a process may run (a worker process executes one case at a time).
var runProcTimeout = 60 * time.Second

func runProc(dir string, umask int, stdin []byte, stdout *os.File, closeRead *os.File, fsize int, argv ...string) procResult {
	var res procResult
	args := argv
	if fsize >= 0 {
		args = append([]string{"prlimit", fmt.Sprintf("--fsize=%d", fsize), "--"}, argv...)
	}
	if umask != 0 {
		// umask is per process: wrap in sh
		q := ""
		for _, a := range args {
			q += " '" + strings.ReplaceAll(a, "'", "'\\''") + "'"
		}
		args = []string{"sh", "-c", fmt.Sprintf("umask %o; exec%s", umask, q)}
	}
	cmd := exec.Command(args[0], args[1:]...)
	cmd.Dir = dir
	cmd.Env = []string{"PATH=/usr/bin:/bin", "HOME=" + dir, "TZ=UTC", "LANG=C"}
	if stdin != nil {
		cmd.Stdin = bytes.NewReader(stdin)
		if runProcStdinPieces != nil {
			cmd.Stdin = &piecesReader{data: stdin, sizes: runProcStdinPieces}
		}
	}
	if runProcStdinFile != nil {
		cmd.Stdin = runProcStdinFile
	}
	var outBuf, errBuf bytes.Buffer
	if stdout != nil {
		cmd.Stdout = stdout
	} else {
		cmd.Stdout = &outBuf
	}
	cmd.Stderr = &errBuf
	if closeRead != nil {
		closeRead.Close() // the reader is gone before the process starts
	}
	if err := cmd.Start(); err != nil {
		res.exit = -1
		res.stderr = "start: " + err.Error()
		return res
	}
	done := make(chan error, 1)
	go func() { done <- cmd.Wait() }()
	select {
	case <-done:
	case <-time.After(runProcTimeout):
		cmd.Process.Kill()
		<-done
		res.timeout = true
	}
	res.stdout = outBuf.Bytes()
	res.stderr = errBuf.String()
	if ws, ok := cmd.ProcessState.Sys().(syscall.WaitStatus); ok {
		if ws.Signaled() {
			res.signal = true
			res.exit = 128 + int(ws.Signal())
		} else {
			res.exit = ws.ExitStatus()
		}
	} else {
		res.exit = cmd.ProcessState.ExitCode()
	}
	return res
}

func fileID(path string) (uint64, int64, bool) {
	fi, err := os.Lstat(path)
	if err != nil {
		return 0, 0, false
	}
	st := fi.Sys().(*syscall.Stat_t)
	return st.Ino, fi.Size(), true
}

func (e C15) Execute(plan interface{}, c *core.Ctx) *core.Verdict {
	p := plan.(*C15Plan)
	ageBin, kgBin := os.Getenv("AGE_BIN"), os.Getenv("KEYGEN_BIN")
	if ageBin == "" || kgBin == "" {
		return core.Fail("harness", "AGE_BIN / KEYGEN_BIN not set (use ./check C15 ...)")
	}
	if p.Op == "keygen-race" {
		return e.race(p, c, kgBin)
	}
	if p.Op == "decrypt-p" || p.Op == "encrypt-p" || p.Op == "decrypt-sshenc" {
		return e.passCase(p, c, ageBin)
	}
	if !p.Sweep {
		return e.one(p, p.Fault, c, ageBin, kgBin, nil, -1)
	}
	// sweep: learn the output length from a fault-free run, then every limit 0..len
	var olen int
	if v := e.one(p, OutFault{}, c, ageBin, kgBin, &olen, -1); v != nil {
		return v
	}
	for n := 0; n <= olen; n++ {
		if v := e.one(p, OutFault{Kind: "fsize", N: n}, c, ageBin, kgBin, nil, olen); v != nil {
			q := *p
			q.Sweep = false
			q.Fault = OutFault{Kind: "fsize", N: n}
			v.Narrow = &q
			return v
		}
	}
	return nil
}

func (e C15) one(p *C15Plan, fault OutFault, c *core.Ctx, ageBin, kgBin string, outLen *int, knownLen int) *core.Verdict {
	dir, err := os.MkdirTemp("", "c15-")
	if err != nil {
		return core.Fail("harness", "%v", err)
	}
	defer os.RemoveAll(dir)
	os.Mkdir(filepath.Join(dir, "d"), 0o755)
	write := func(name string, b []byte) string {
		path := filepath.Join(dir, name)
		if err := os.WriteFile(path, b, 0o600); err != nil {
			panic(err)
		}
		return path
	}
	P := lib.FileSpec{PSeed: p.PSeed, PLen: p.PLen, ZTail: p.ZTail}.Plain()
	var argv []string
	var stdin []byte
	var expected []byte               // decrypt: exact expected output
	var verify func(out []byte) error // encrypt / keygen: output validity
	inputPath, idPath, recPath := "", "", ""
	headerRefusal, payloadFailure := false, false
	validInput := true

	switch p.Op {
	case "encrypt":
		argv = []string{ageBin}
		if p.Armor {
			argv = append(argv, "-a")
		}
		switch p.RecipVia {
		case "-r":
			for _, k := range p.Keys {
				argv = append(argv, "-r", cliRecipientString(k))
			}
		case "-R":
			var sb strings.Builder
			sb.WriteString("# recipients\n")
			for _, k := range p.Keys {
				sb.WriteString(cliRecipientString(k) + "\n")
			}
			recPath = write("recipients.txt", []byte(sb.String()))
			argv = append(argv, "-R", recPath)
		default:
			argv = append(argv, "-e")
			for i, k := range p.Keys {
				pth := write(fmt.Sprintf("id%d.key", i), cliIdentityFile(k))
				if i == 0 {
					idPath = pth
				}
				argv = append(argv, "-i", pth)
			}
		}
		keys := p.Keys
		armor := p.Armor
		verify = func(out []byte) error {
			for _, k := range keys {
				pt, _, err := lib.RefOpen(out, armor, k)
				if err != nil {
					return fmt.Errorf("reference model cannot decrypt the output with %s: %v", k, err)
				}
				if !bytes.Equal(pt, P) {
					return fmt.Errorf("output decrypts to %d bytes, input had %d", len(pt), len(P))
				}
			}
			return nil
		}
	case "decrypt":
		spec := lib.FileSpec{PSeed: p.PSeed, PLen: p.PLen, Tape: p.Tape, Armor: p.Armor, ZTail: p.ZTail}
		for i := range p.Keys {
			k := p.Keys[i]
			spec.Recips = append(spec.Recips, lib.Recip{Key: &k})
		}
		img, _ := lib.MustEncrypt(spec)
		switch p.Damage {
		case "header":
			i := 30 % len(img)
			if p.Armor {
				i = 60 % len(img)
			}
			img = append([]byte(nil), img...)
			img[i] ^= 1
			if p.Armor && img[i] == '\n' {
				img[i] = 'A'
			}
			headerRefusal = true
			validInput = false
		case "payload":
			img = append([]byte(nil), img...)
			pos := len(img) - 3
			if p.Armor {
				pos = len(img) - 40
			}
			if pos < 0 {
				pos = 0
			}
			img[pos] ^= 1
			if p.Armor && (img[pos] == '\n' || img[pos] == '=') {
				img[pos] = 'B'
			}
			payloadFailure = true
			validInput = false
		case "trunc_chunk":
			// the writer died right at a chunk boundary: the final chunk is missing entirely
			bin := img
			if p.Armor {
				bin, _ = ref.Dearmor(string(img))
			}
			if l, err := lib.ParseLayout(bin, p.Keys[0]); err == nil {
				full := (len(l.Payload) - 1) / ref.EncChunk // chunks before the last one
				bin = bin[:l.HeaderLen+16+full*ref.EncChunk]
			}
			img = bin
			if p.Armor {
				img = []byte(ref.Armor(bin))
			}
			payloadFailure = true
			validInput = false
		case "trunc":
			cut := len(img) - 5
			if p.Armor {
				cut = len(img) - 50
			}
			if cut < 0 {
				cut = 0
			}
			img = img[:cut]
			payloadFailure = true
			validInput = false
		}
		argv = []string{ageBin, "-d"}
		outsiders := genOutsidersFixed(p.Keys)
		for i := 0; i < p.ExtraIDs; i++ {
			pth := write(fmt.Sprintf("extra%d.key", i), cliIdentityFile(outsiders[i%len(outsiders)]))
			argv = append(argv, "-i", pth)
		}
		idk := outsiders[len(outsiders)-1]
		if p.IdKey >= 0 {
			idk = p.Keys[p.IdKey%len(p.Keys)]
		} else {
			headerRefusal = true
			validInput = false
			c.Stats.Inc("fault.no_matching_identity")
		}
		idPath = write("id.key", cliIdentityFile(idk))
		argv = append(argv, "-i", idPath)
		expected = P
		if p.InVia == "file" {
			inputPath = write("input.age", img)
		} else {
			stdin = img
		}
		if p.Damage != "" {
			c.Stats.Inc("fault.damage_" + p.Damage)
		}
	case "keygen":
		argv = []string{kgBin}
		verify = func(out []byte) error {
			lines := strings.Split(string(out), "\n")
			if len(lines) != 4 || lines[3] != "" {
				return fmt.Errorf("key file does not have 3 lines: %q", out)
			}
			if !strings.HasPrefix(lines[0], "# created: ") || !strings.HasPrefix(lines[1], "# public key: age1") {
				return fmt.Errorf("key file comment lines malformed: %q", out)
			}
			hrp, sk, err := ref.Bech32Decode(lines[2])
			if err != nil || hrp != "AGE-SECRET-KEY-" || len(sk) != 32 {
				return fmt.Errorf("secret key line does not parse: %v", err)
			}
			if pub := ref.Bech32Encode("age", ref.X25519Public(sk)); "# public key: "+pub != lines[1] {
				return fmt.Errorf("public key comment does not match the secret key")
			}
			return nil
		}
	case "keygen-y":
		var sb strings.Builder
		var want strings.Builder
		for i := 0; i < p.NKeys; i++ {
			sk := world.X25519Secret(i)
			sb.WriteString("# comment\n" + strings.ToUpper(ref.Bech32Encode("AGE-SECRET-KEY-", sk)) + "\n")
			want.WriteString(ref.Bech32Encode("age", ref.X25519Public(sk)) + "\n")
		}
		argv = []string{kgBin, "-y"}
		expected = []byte(want.String())
		if p.InVia == "file" {
			inputPath = write("keys.txt", []byte(sb.String()))
		} else {
			stdin = []byte(sb.String())
		}
	}
	if p.Op == "encrypt" {
		if p.InVia == "file" {
			inputPath = write("input.bin", P)
		} else {
			stdin = P
		}
	}

	// ----- input that cannot be read -----
	switch fault.Kind {
	case "in_isdir":
		inputPath = filepath.Join(dir, "d") // a directory: opening works, reading fails
		stdin = nil
		validInput = false
		headerRefusal = p.Op == "decrypt"
	case "in_stdin_unreadable":
		inputPath = ""
		stdin = nil
		if f, err := os.OpenFile(filepath.Join(dir, "sink"), os.O_WRONLY|os.O_CREATE, 0o600); err == nil {
			runProcStdinFile = f // standard input is a descriptor opened for writing only
			defer func() { f.Close(); runProcStdinFile = nil }()
		}
		validInput = false
		headerRefusal = p.Op == "decrypt"
	}

	// ----- destination -----
	outPath := filepath.Join(dir, "out.bin")
	var stdoutFile *os.File
	var closeRead *os.File
	var fifoData []byte
	var fifoDone chan struct{}
	var fifoStop func()
	fsize := -1
	pre := []byte("PRE-EXISTING CONTENT THAT MUST SURVIVE A REFUSAL\n")
	if p.PreEmpty {
		pre = []byte{} // a name reserved beforehand (mktemp): still must be neither removed nor replaced
	}
	sameTarget := ""
	switch {
	case p.SameAs != "":
		target := inputPath
		switch p.SameAs {
		case "identity":
			target = idPath
		case "recipients":
			target = recPath
		}
		if target == "" {
			target = inputPath
		}
		if target == "" {
			p2 := *p
			p2.SameAs = ""
			return e.one(&p2, fault, c, ageBin, kgBin, outLen, knownLen)
		}
		sameTarget = target
		base := filepath.Base(target)
		switch p.Spelling {
		case "dot":
			outPath = "./" + base
		case "dotdot":
			outPath = "d/../" + base
		case "abs":
			outPath = target
		case "abs-dot":
			outPath = filepath.Dir(target) + "/./" + base
		case "abs-dotdot":
			outPath = filepath.Dir(target) + "/d/../" + base
		case "abs-slashes":
			outPath = filepath.Dir(target) + "//" + base
		default:
			outPath = base
		}
		// make every path in argv relative too where it names the target, so spellings differ
	case fault.Kind == "nodir":
		outPath = filepath.Join(dir, "missing", "dir", "out.bin")
	case fault.Kind == "isdir":
		outPath = filepath.Join(dir, "d")
	case fault.Kind == "devfull" && p.OutVia == "file":
		outPath = "/dev/full"
	}
	if fault.Kind == "fsize" {
		fsize = fault.N
	}
	linkTarget := ""
	if p.PreExist && p.SameAs == "" && fault.Kind == "" {
		if p.PreLink && (p.Op == "keygen" || p.Op == "keygen-y") {
			// -o names a symbolic link to an existing file: still "an existing file"
			linkTarget = filepath.Join(dir, "d", "existing-target")
			os.WriteFile(linkTarget, pre, 0o644)
			os.Symlink(linkTarget, outPath)
			c.Stats.Inc("probe.pre_existing_symlink")
		} else {
			os.WriteFile(outPath, pre, 0o644)
		}
		c.Stats.Inc("probe.pre_existing_output")
	}
	preIno, _, preOK := fileID(outPath)
	switch p.OutVia {
	case "file":
		if p.Op == "keygen" || p.Op == "keygen-y" {
			argv = append(argv, "-o", outPath)
		} else {
			argv = append(argv, "-o", outPath)
		}
	case "fifo":
		// a named pipe with a reader attached (the harness keeps both ends open so that age never blocks or gets SIGPIPE)
		if err := syscall.Mkfifo(outPath, 0o600); err != nil {
			return core.Fail("harness", "mkfifo: %v", err)
		}
		rd, err := os.OpenFile(outPath, os.O_RDWR, 0)
		if err != nil {
			return core.Fail("harness", "open fifo: %v", err)
		}
		defer rd.Close()
		fifoDone = make(chan struct{})
		go func() {
			defer close(fifoDone)
			buf := make([]byte, 65536)
			for {
				n, err := rd.Read(buf)
				fifoData = append(fifoData, buf[:n]...)
				if err != nil {
					return
				}
			}
		}()
		fifoStop = func() { rd.SetReadDeadline(time.Now().Add(30 * time.Millisecond)); <-fifoDone }
		argv = append(argv, "-o", outPath)
		c.Stats.Inc("probe.output_not_a_regular_file")
	case "fifo-early":
		if err := syscall.Mkfifo(outPath, 0o600); err != nil {
			return core.Fail("harness", "mkfifo: %v", err)
		}
		rfd, err := syscall.Open(outPath, syscall.O_RDONLY|syscall.O_NONBLOCK|syscall.O_CLOEXEC, 0) // (close-on-exec: the child must not inherit the read end)
		if err != nil {
			return core.Fail("harness", "open fifo: %v", err)
		}
		fifoDone = make(chan struct{})
		stopEarly := make(chan struct{})
		go func() {
			defer close(fifoDone)
			defer syscall.Close(rfd)
			buf := make([]byte, 1000)
			for len(fifoData) < 1000 {
				n, _ := syscall.Read(rfd, buf[:1000-len(fifoData)])
				if n > 0 {
					fifoData = append(fifoData, buf[:n]...)
					continue
				}
				select {
				case <-stopEarly:
					return
				case <-time.After(time.Millisecond):
				}
			}
		}()
		fifoStop = func() { close(stopEarly); <-fifoDone }
		argv = append(argv, "-o", outPath)
		c.Stats.Inc("probe.output_not_a_regular_file")
		c.Stats.Inc("fault.fifo_reader_leaves")
	case "devstdout":
		argv = append(argv, "-o", "/dev/stdout") // stdout is a pipe the harness reads
		c.Stats.Inc("probe.output_not_a_regular_file")
	case "devnull":
		argv = append(argv, "-o", "/dev/null")
		c.Stats.Inc("probe.output_not_a_regular_file")
	case "stdout-file":
		f, err := os.Create(outPath)
		if err != nil {
			return core.Fail("harness", "%v", err)
		}
		stdoutFile = f
		defer f.Close()
	case "stdout":
		if fault.Kind == "devfull" {
			f, err := os.OpenFile("/dev/full", os.O_WRONLY, 0)
			if err != nil {
				return core.Fail("harness", "%v", err)
			}
			stdoutFile = f
			defer f.Close()
		} else if fault.Kind == "closedpipe" {
			rd, wr, err := os.Pipe()
			if err != nil {
				return core.Fail("harness", "%v", err)
			}
			stdoutFile = wr
			closeRead = rd
			defer wr.Close()
		}
	}
	if p.OutVia == "stdout-file" && fault.Kind == "devfull" {
		stdoutFile.Close()
		f, _ := os.OpenFile("/dev/full", os.O_WRONLY, 0)
		stdoutFile = f
	}
	if p.Dash && (p.OutVia == "stdout" || p.OutVia == "stdout-file") && (p.Op == "encrypt" || p.Op == "decrypt") {
		argv = append(argv, "-o", "-")
		c.Stats.Inc("probe.dash_names")
	}
	if inputPath != "" {
		argv = append(argv, inputPath)
	} else if p.Dash && stdin != nil && p.Op != "keygen" {
		argv = append(argv, "-")
		c.Stats.Inc("probe.dash_names")
	}
	var sameBefore []byte
	var sameIno uint64
	if sameTarget != "" {
		sameBefore, _ = os.ReadFile(sameTarget)
		sameIno, _, _ = fileID(sameTarget)
	}

	if p.OutVia == "fifo-early" {
		runProcTimeout = 15 * time.Second // a blocked writer is recognised sooner
	}
	if p.InVia == "stdin-pieces" && stdin != nil {
		// first piece small, then a pause, a second piece, a pause, the rest
		runProcStdinPieces = []int{[]int{1, 6, 100, 4096, 40000}[int(p.PSeed)%5], []int{1, 70000, 32768}[int(p.PSeed/5)%3]}
		c.Stats.Inc("probe.stdin_delivered_in_pieces_with_pauses")
	}
	res := runProc(dir, p.Umask, stdin, stdoutFile, closeRead, fsize, argv...)
	runProcStdinPieces = nil
	runProcTimeout = 60 * time.Second
	if fifoStop != nil {
		fifoStop()
	}
	if p.OutVia == "fifo-early" && fault.Kind == "" {
		c.Stats.Eval(fmt.Sprintf("%+v|fifo-early", *p), true)
		c.Log.Add("%s -o FIFO whose reader leaves after %d bytes -> exit=%d timeout=%v", p.Op, len(fifoData), res.exit, res.timeout)
		if res.timeout {
			return core.Fail("C15.hang", "%s -o FIFO: the reader took %d bytes and left, the result (about %d bytes) cannot be fully written, and the process neither failed nor finished within 15 s", p.Op, len(fifoData), p.PLen)
		}
		if res.exit == 0 && p.PLen > 140000 {
			return core.Fail("C15.exit0_incomplete", "%s -o FIFO: the reader took %d bytes and left, the result (about %d bytes) is far larger than a pipe holds, yet the exit status is 0", p.Op, len(fifoData), p.PLen)
		}
		c.Stats.Inc("probe.exit_nonzero")
		return nil
	}
	if res.timeout {
		return core.Fail("C15.hang", "process did not finish within 60 s: %v", argv[1:])
	}
	if res.exit == -1 {
		return core.Fail("harness", "%s", res.stderr)
	}

	// ----- what reached the destination -----
	var got []byte
	gotKnown := true
	destExists := false
	switch {
	case fault.Kind == "devfull" || fault.Kind == "closedpipe":
		gotKnown = false
	case p.OutVia == "stdout" || p.OutVia == "devstdout":
		got = res.stdout
		destExists = true
	case p.OutVia == "fifo":
		got = fifoData
		destExists = true
	case p.OutVia == "devnull":
		gotKnown = false
	default:
		b, err := os.ReadFile(func() string {
			if filepath.IsAbs(outPath) {
				return outPath
			}
			return filepath.Join(dir, outPath)
		}())
		if err == nil {
			got = b
			destExists = true
		}
	}
	nontrivial := fault.Kind != "" || p.Damage != "" || p.PreExist || p.SameAs != "" || p.IdKey < 0
	sig := fmt.Sprintf("%+v|%+v", *p, fault)
	c.Stats.Eval(sig, nontrivial)
	if fault.Kind != "" {
		c.Stats.Inc("fault." + fault.Kind)
	}
	if p.PLen == 0 && (p.Op == "encrypt" || p.Op == "decrypt") {
		c.Stats.Inc("probe.empty_plaintext")
	}
	if p.PLen > 65536 {
		c.Stats.Inc("probe.multi_chunk")
	}
	if stdin != nil {
		c.Stats.Inc("probe.stdin_input")
	}
	if p.ExtraIDs > 0 && p.Op == "decrypt" {
		c.Stats.Inc("probe.several_identity_files")
	}
	if res.signal {
		c.Stats.Inc("probe.killed_by_signal")
	}
	san := func(x string) string { return strings.ReplaceAll(x, dir, "$D") }
	res.stderr = san(res.stderr)
	errLine := strings.SplitN(res.stderr, "\n", 2)[0]
	if strings.HasPrefix(errLine, "Public key: age1") {
		errLine = "Public key: <fresh key>" // the one value of a run the simulator does not decide
	}
	c.Log.Add("%s %v fault=%+v -> exit=%d dest=%d bytes (exists=%v) stderr=%q", p.Op, argvTail(argv, dir), fault, res.exit, len(got), destExists, clipS(errLine))
	desc := fmt.Sprintf("%s (keys %v, armor=%v, |P|=%d, in=%s, out=%s, damage=%q, fault=%+v, same=%s/%s)", p.Op, p.Keys, p.Armor, p.PLen, p.InVia, p.OutVia, p.Damage, fault, p.SameAs, p.Spelling)

	// ----- same-file: must be refused, files intact -----
	if sameTarget != "" {
		after, _ := os.ReadFile(sameTarget)
		ino, _, _ := fileID(sameTarget)
		if res.exit == 0 {
			return core.Fail("C15.same_file_accepted", "-o names the %s file (spelled %q) and age exited 0: %s", p.SameAs, outPath, desc)
		}
		if !bytes.Equal(after, sameBefore) || ino != sameIno {
			return core.Fail("C15.same_file_clobbered", "-o names the %s file (spelled %q): the file was modified or replaced: %s", p.SameAs, outPath, desc)
		}
		c.Stats.Inc("probe.same_file_refused")
		return nil
	}

	complete := func() (bool, string) {
		if p.OutVia == "devnull" {
			return true, "" // everything written to /dev/null counts as delivered (no limit applies to it); only the status is observable
		}
		if !gotKnown {
			// /dev/full and closed pipes accept nothing: only an empty result counts as delivered
			if expected != nil && len(expected) == 0 {
				return true, ""
			}
			return false, "destination accepts no bytes"
		}
		if !destExists {
			return false, "destination does not exist"
		}
		if expected != nil {
			if bytes.Equal(got, expected) {
				return true, ""
			}
			return false, fmt.Sprintf("destination holds %d bytes, the complete result has %d", len(got), len(expected))
		}
		if err := verify(got); err != nil {
			return false, err.Error()
		}
		return true, ""
	}
	if outLen != nil {
		*outLen = len(got)
	}
	if fault.Kind == "fsize" {
		// classify for the probes (needs the length of the complete output; known for decrypt/keygen-y)
		if knownLen < 0 && expected != nil {
			knownLen = len(expected)
		}
		if knownLen >= 0 && fault.N < knownLen {
			c.Stats.Inc("probe.fsize_limit_below_output")
		} else if knownLen >= 0 {
			c.Stats.Inc("probe.fsize_limit_at_or_above_output")
		}
	}

	if fault.Kind == "in_isdir" || fault.Kind == "in_stdin_unreadable" {
		if res.exit == 0 {
			return core.Fail("C15.unreadable_input_exit0", "the input cannot be read (%s) and the exit status is 0: %s; the output holds %d bytes; stderr %q", fault.Kind, desc, len(got), clipS(res.stderr))
		}
		c.Stats.Inc("probe.exit_nonzero")
	}
	if res.exit == 0 {
		ok, why := complete()
		if !ok {
			return core.Fail("C15.exit0_incomplete", "exit status 0 but the complete result did not reach the output (%s): %s; stderr %q", why, desc, clipS(res.stderr))
		}
		c.Stats.Inc("probe.exit0_complete")
		if p.Op == "keygen" && p.OutVia == "file" {
			fi, err := os.Stat(outPath)
			if err == nil {
				c.Stats.Inc("probe.keygen_mode_checked")
				if fi.Mode().Perm()&0o077 != 0 {
					return core.Fail("C15.keygen_mode", "age-keygen -o created the key file with mode %o under umask %o", fi.Mode().Perm(), p.Umask)
				}
			}
		}
		if p.PreExist && p.Op == "keygen" {
			return core.Fail("C15.keygen_overwrote", "age-keygen -o overwrote an existing file and exited 0")
		}
	} else {
		c.Stats.Inc("probe.exit_nonzero")
		if fault.Kind == "" && validInput && !(p.PreExist && (p.Op == "keygen" || p.Op == "keygen-y")) {
			return core.Fail("C15.spurious_failure", "no fault, valid input, yet exit status %d: %s; stderr %q", res.exit, desc, clipS(res.stderr))
		}
		if fault.Kind == "fsize" {
			// a limit that still lets the whole result through must not fail
			if knownLen >= 0 && fault.N >= knownLen && validInput {
				return core.Fail("C15.spurious_failure", "file size limit %d >= output size %d, valid input, yet exit status %d; stderr %q", fault.N, knownLen, res.exit, san(clipS(res.stderr)))
			}
		}
	}
	if linkTarget != "" {
		if b, _ := os.ReadFile(linkTarget); !bytes.Equal(b, pre) || res.exit == 0 {
			return core.Fail("C15.keygen_overwrote", "age-keygen -o naming a symbolic link to an existing file: exit %d, target intact=%v", res.exit, bytes.Equal(b, pre))
		}
	}
	// keygen never overwrites
	if p.PreExist && (p.Op == "keygen" || p.Op == "keygen-y") && p.OutVia == "file" {
		b, _ := os.ReadFile(outPath)
		ino, _, _ := fileID(outPath)
		if res.exit == 0 || !bytes.Equal(b, pre) || ino != preIno {
			return core.Fail("C15.keygen_overwrote", "age-keygen -o with an existing file: exit %d, file intact=%v", res.exit, bytes.Equal(b, pre))
		}
	}
	// header-level refusal: -o neither created nor modified
	if p.Op == "decrypt" && headerRefusal && p.OutVia == "file" && fault.Kind == "" {
		if res.exit == 0 {
			return core.Fail("C15.refusal_exit0", "decryption must be refused at the header (%s) but exit status is 0", desc)
		}
		ino, _, ok := fileID(outPath)
		switch {
		case !preOK && ok:
			return core.Fail("C15.refusal_created_output", "decryption refused at the header created the -o file (%d bytes): %s", len(got), desc)
		case preOK && (!ok || ino != preIno || !bytes.Equal(got, pre)):
			return core.Fail("C15.refusal_modified_output", "decryption refused at the header modified the existing -o file: %s", desc)
		}
		c.Stats.Inc("probe.header_refusal_output_untouched")
	}
	// payload failure: what is left is a prefix of the plaintext
	if p.Op == "decrypt" && payloadFailure && gotKnown && fault.Kind == "" {
		if res.exit == 0 {
			return core.Fail("C15.damaged_exit0", "damaged payload (%s) but exit status 0: %s", p.Damage, desc)
		}
		if destExists && !lib.IsPrefix(got, P) && !(p.PreExist && bytes.Equal(got, pre)) {
			return core.Fail("C15.partial_not_prefix", "output left behind by a payload failure (%d bytes) is not a prefix of the true plaintext: %s", len(got), desc)
		}
		c.Stats.Inc("probe.partial_output_is_prefix")
	}
	// any decrypt output, complete or not, is a prefix of P
	if p.Op == "decrypt" && gotKnown && destExists && !p.PreExist && !lib.IsPrefix(got, P) {
		return core.Fail("C15.partial_not_prefix", "decrypt output (%d bytes) is not a prefix of the true plaintext: %s", len(got), desc)
	}
	return nil
}

// race: age-keygen -y -o OUT FIFO with a second actor. Opening the FIFO is a rendezvous: when the harness's
// open-for-writing succeeds, age-keygen has reached the open of its input. At that moment (or after half the
// input) the competitor tries to create OUT exclusively. Whatever the order in which age-keygen does things, if the
// competitor's creation succeeded the name existed from then on and must never be overwritten.
func (e C15) race(p *C15Plan, c *core.Ctx, kgBin string) *core.Verdict {
	dir, err := os.MkdirTemp("", "c15r-")
	if err != nil {
		return core.Fail("harness", "%v", err)
	}
	defer os.RemoveAll(dir)
	os.Mkdir(filepath.Join(dir, "d"), 0o755)
	fifo := filepath.Join(dir, "in.fifo")
	if err := syscall.Mkfifo(fifo, 0o600); err != nil {
		return core.Fail("harness", "mkfifo: %v", err)
	}
	outPath := filepath.Join(dir, "out.txt")
	pre := []byte("THE OTHER PARTY'S FILE\n")
	existing := filepath.Join(dir, "d", "existing-target")
	os.WriteFile(existing, pre, 0o644)
	var in, want strings.Builder
	for i := 0; i < p.NKeys; i++ {
		sk := world.X25519Secret(i)
		in.WriteString("# comment\n" + strings.ToUpper(ref.Bech32Encode("AGE-SECRET-KEY-", sk)) + "\n")
		want.WriteString(ref.Bech32Encode("age", ref.X25519Public(sk)) + "\n")
	}
	input := []byte(in.String())
	args := []string{kgBin, "-y", "-o", outPath, fifo}
	if p.Umask != 0 {
		args = []string{"sh", "-c", fmt.Sprintf("umask %o; exec '%s' -y -o '%s' '%s'", p.Umask, kgBin, outPath, fifo)}
	}
	cmd := exec.Command(args[0], args[1:]...)
	cmd.Dir = dir
	cmd.Env = []string{"PATH=/usr/bin:/bin", "HOME=" + dir, "TZ=UTC", "LANG=C"}
	var errBuf bytes.Buffer
	cmd.Stderr = &errBuf
	if err := cmd.Start(); err != nil {
		return core.Fail("harness", "start: %v", err)
	}
	done := make(chan error, 1)
	go func() { done <- cmd.Wait() }()
	exited := false
	fd := -1
	start := time.Now()
	for fd < 0 && !exited {
		f, err := syscall.Open(fifo, syscall.O_WRONLY|syscall.O_NONBLOCK|syscall.O_CLOEXEC, 0)
		switch {
		case err == nil:
			fd = f
		case err == syscall.ENXIO || err == syscall.EINTR:
			select {
			case <-done:
				exited = true
			case <-time.After(time.Millisecond):
			}
			if time.Since(start) > 60*time.Second {
				cmd.Process.Kill()
				<-done
				return core.Fail("C15.hang", "age-keygen -y -o OUT FIFO never opened its input")
			}
		default:
			cmd.Process.Kill()
			<-done
			return core.Fail("harness", "open fifo: %v", err)
		}
	}
	created := false
	var createdIno uint64
	compete := func() {
		var err error
		switch p.RaceKind {
		case "symlink":
			err = os.Symlink(existing, outPath)
		case "hardlink":
			err = os.Link(existing, outPath)
		default:
			var f *os.File
			f, err = os.OpenFile(outPath, os.O_WRONLY|os.O_CREATE|os.O_EXCL, 0o644)
			if err == nil {
				f.Write(pre)
				f.Close()
			}
		}
		if err == nil {
			created = true
			createdIno, _, _ = fileID(outPath)
		}
	}
	if fd >= 0 {
		syscall.SetNonblock(fd, false)
		half := 0
		if p.RaceAt == "mid" {
			half = len(input) / 2
			syscall.Write(fd, input[:half])
		}
		compete()
		syscall.Write(fd, input[half:])
		syscall.Close(fd)
		select {
		case <-done:
		case <-time.After(60 * time.Second):
			cmd.Process.Kill()
			<-done
			return core.Fail("C15.hang", "age-keygen -y did not finish within 60 s after its input ended")
		}
	}
	exit := cmd.ProcessState.ExitCode()
	c.Stats.Eval(fmt.Sprintf("%+v", *p), true)
	c.Stats.Inc("fault.competing_creator")
	stderr := strings.ReplaceAll(errBuf.String(), dir, "$D")
	c.Log.Add("keygen-race at=%s kind=%s keys=%d -> competitor created=%v exit=%d stderr=%q", p.RaceAt, p.RaceKind, p.NKeys, created, exit, clipS(strings.SplitN(stderr, "\n", 2)[0]))
	if fd < 0 {
		return core.Fail("C15.spurious_failure", "age-keygen -y -o OUT INPUT exited (status %d) before opening its input; stderr %q", exit, clipS(stderr))
	}
	got, rerr := os.ReadFile(outPath)
	if created {
		c.Stats.Inc("probe.race_competitor_created")
		ino, _, _ := fileID(outPath)
		if rerr != nil || !bytes.Equal(got, pre) || ino != createdIno {
			return core.Fail("C15.keygen_overwrote", "another party created the -o name (%s, when age-keygen %s) and age-keygen -y replaced or modified it afterwards (exit %d): it now holds %q", p.RaceKind, map[string]string{"open": "opened its input", "mid": "had half of its input"}[p.RaceAt], exit, clipS(string(got)))
		}
		if b, _ := os.ReadFile(existing); !bytes.Equal(b, pre) {
			return core.Fail("C15.keygen_overwrote", "age-keygen -y wrote through a link another party created at the -o name")
		}
		if exit == 0 {
			return core.Fail("C15.exit0_incomplete", "exit status 0 but the -o name holds another party's file, not the result")
		}
		return nil
	}
	c.Stats.Inc("probe.race_competitor_refused")
	if b, _ := os.ReadFile(existing); !bytes.Equal(b, pre) {
		return core.Fail("harness", "the unrelated existing file changed")
	}
	if exit != 0 {
		return core.Fail("C15.spurious_failure", "no fault, valid input (the competing creation was refused), yet exit status %d; stderr %q", exit, clipS(stderr))
	}
	if rerr != nil || string(got) != want.String() {
		return core.Fail("C15.exit0_incomplete", "exit status 0 but the output holds %q, the complete result is %q", clipS(string(got)), clipS(want.String()))
	}
	return nil
}

// passCase: passphrase encryption and decryption, the person at the terminal simulated on a pseudo-terminal.
func (e C15) passCase(p *C15Plan, c *core.Ctx, ageBin string) *core.Verdict {
	dir, err := os.MkdirTemp("", "c15p-")
	if err != nil {
		return core.Fail("harness", "%v", err)
	}
	defer os.RemoveAll(dir)
	P := lib.FileSpec{PSeed: p.PSeed, PLen: p.PLen, ZTail: p.ZTail}.Plain()
	const pass = "correct horse" // world.Passphrases[0]
	outPath := filepath.Join(dir, "out.bin")
	pre := []byte("PRE-EXISTING CONTENT THAT MUST SURVIVE A REFUSAL\n")
	if p.PreEmpty {
		pre = []byte{}
	}
	if p.PreExist {
		os.WriteFile(outPath, pre, 0o644)
		c.Stats.Inc("probe.pre_existing_output")
	}
	preIno, _, preOK := fileID(outPath)
	var argv []string
	promptText := "Enter passphrase"
	typedRight := pass
	if p.Op == "decrypt-sshenc" {
		t := "ed"
		if len(p.Keys) > 0 && p.Keys[0].T == "r" {
			t = "rsa"
		}
		idPath := filepath.Join(dir, "id_key")
		os.WriteFile(idPath, world.Fixture("c19_"+t+"A.enc"), 0o600)
		os.WriteFile(idPath+".pub", world.Fixture("c19_"+t+"A.pub"), 0o644)
		rcp, rerr := agessh.ParseRecipient(strings.TrimSpace(string(world.Fixture("c19_" + t + "A.pub"))))
		if rerr != nil {
			return core.Fail("harness", "fixture pub: %v", rerr)
		}
		recips := []age.Recipient{rcp}
		if p.Answer == "notmine" {
			recips = []age.Recipient{world.Recipient(world.Key{T: "x", K: 7}), world.Recipient(world.Key{T: map[string]string{"ed": "e", "rsa": "r"}[t], K: 1})}
		}
		var img bytes.Buffer
		restore := seam.NewTape(p.Tape).Install()
		w, werr := age.Encrypt(&img, recips...)
		if werr == nil {
			w.Write(P)
			werr = w.Close()
		}
		restore()
		if werr != nil {
			return core.Fail("harness", "encrypt: %v", werr)
		}
		os.WriteFile(filepath.Join(dir, "in.age"), img.Bytes(), 0o600)
		argv = []string{ageBin, "-d", "-i", idPath, "-o", outPath, filepath.Join(dir, "in.age")}
		promptText = "Enter passphrase for"
		typedRight = "pass-" + t + "A"
	} else if p.Op == "decrypt-p" {
		spec := lib.FileSpec{PSeed: p.PSeed, PLen: p.PLen, Tape: p.Tape, Armor: p.Armor, ZTail: p.ZTail, Recips: []lib.Recip{{Key: &world.Key{T: "s", K: 0, WF: 10}}}}
		img, _ := lib.MustEncrypt(spec)
		os.WriteFile(filepath.Join(dir, "in.age"), img, 0o600)
		argv = []string{ageBin, "-d", "-o", outPath, filepath.Join(dir, "in.age")}
	} else {
		os.WriteFile(filepath.Join(dir, "in.bin"), P, 0o600)
		argv = []string{ageBin, "-p"}
		if p.Armor {
			argv = append(argv, "-a")
		}
		argv = append(argv, "-o", outPath, filepath.Join(dir, "in.bin"))
	}
	pt, err := lib.OpenPTY()
	if err != nil {
		return core.Fail("harness", "pty: %v", err)
	}
	defer pt.Close()
	cmd := exec.Command(argv[0], argv[1:]...)
	cmd.Dir = dir
	cmd.Env = []string{"PATH=/usr/bin:/bin", "HOME=" + dir, "TZ=UTC", "LANG=C"}
	var errBuf, outBuf bytes.Buffer
	cmd.Stderr, cmd.Stdout = &errBuf, &outBuf
	if err := pt.Start(cmd); err != nil {
		return core.Fail("harness", "start: %v", err)
	}
	done := make(chan error, 1)
	go func() { done <- cmd.Wait() }()
	typed := map[string][]string{"right": {typedRight}, "wrong": {"not the passphrase"}, "empty": {""}, "match": {pass, pass}, "mismatch": {pass, pass + "x"}}[p.Answer]
	prompts := []string{promptText, "Confirm passphrase"}
	for i, t := range typed {
		if _, err := pt.Expect(prompts[i], 30*time.Second); err != nil {
			cmd.Process.Kill()
			<-done
			return core.Fail("C15.hang", "age did not ask for the passphrase (%s #%d) on its terminal: %v; stderr %q", p.Op, i, err, clipS(errBuf.String()))
		}
		pt.Type(t + "\n")
		prompts[0] = "\x00never" // each prompt text is matched once
	}
	if p.Answer == "hangup" {
		pt.Expect(promptText, 30*time.Second)
		pt.Close() // the terminal goes away while age waits for the passphrase
	}
	exit := -1
	for exit == -1 {
		select {
		case <-done:
			exit = cmd.ProcessState.ExitCode()
			if ws, ok := cmd.ProcessState.Sys().(syscall.WaitStatus); ok && ws.Signaled() {
				exit = 128 + int(ws.Signal())
			}
		case <-time.After(60 * time.Second):
			cmd.Process.Kill()
			<-done
			return core.Fail("C15.hang", "%s with the passphrase prompt answered (%s) did not finish within 60 s", p.Op, p.Answer)
		}
	}
	got, rerr := os.ReadFile(outPath)
	ino, _, exists := fileID(outPath)
	stderr := strings.ReplaceAll(errBuf.String(), dir, "$D")
	c.Stats.Eval(fmt.Sprintf("%+v", *p), true)
	c.Stats.Inc("probe.passphrase_on_pseudo_terminal")
	c.Log.Add("%s answer=%s armor=%v |P|=%d pre=%v -> exit=%d out=%d bytes (exists=%v) stderr=%q", p.Op, p.Answer, p.Armor, p.PLen, p.PreExist, exit, len(got), exists, clipS(strings.SplitN(stderr, "\n", 2)[0]))
	desc := fmt.Sprintf("%s (answer %s, armor=%v, |P|=%d, pre-existing output=%v)", p.Op, p.Answer, p.Armor, p.PLen, p.PreExist)
	untouched := func() *core.Verdict {
		switch {
		case !preOK && exists:
			return core.Fail("C15.refusal_created_output", "%s was refused and still created the -o file (%d bytes); stderr %q", desc, len(got), clipS(stderr))
		case preOK && (!exists || ino != preIno || !bytes.Equal(got, pre)):
			return core.Fail("C15.refusal_modified_output", "%s was refused and modified the existing -o file; stderr %q", desc, clipS(stderr))
		}
		c.Stats.Inc("probe.header_refusal_output_untouched")
		return nil
	}
	if p.Answer == "notmine" {
		seen, _ := pt.Expect("\x00never", 300*time.Millisecond)
		if strings.Contains(seen, "Enter passphrase") {
			return core.Fail("C15.prompted_for_foreign_file", "%s: the file is not addressed to the passphrase-protected key, yet age asked for its passphrase: %q", desc, clipS(seen))
		}
	}
	switch p.Answer {
	case "right":
		if exit != 0 {
			return core.Fail("C15.spurious_failure", "%s: right passphrase, valid file, yet exit status %d; stderr %q", desc, exit, clipS(stderr))
		}
		if rerr != nil || !bytes.Equal(got, P) {
			return core.Fail("C15.exit0_incomplete", "%s: exit status 0 but the output holds %d bytes, the plaintext has %d", desc, len(got), len(P))
		}
		c.Stats.Inc("probe.exit0_complete")
	case "match":
		if exit != 0 {
			return core.Fail("C15.spurious_failure", "%s: the passphrase was typed twice alike, yet exit status %d; stderr %q", desc, exit, clipS(stderr))
		}
		pt2, _, derr := lib.RefOpen(got, p.Armor, world.Key{T: "s", K: 0})
		if rerr != nil || derr != nil || !bytes.Equal(pt2, P) {
			return core.Fail("C15.exit0_incomplete", "%s: exit status 0 but the reference model cannot decrypt the output with the typed passphrase: %v", desc, derr)
		}
		c.Stats.Inc("probe.exit0_complete")
	default:
		c.Stats.Inc("fault.passphrase_" + p.Answer)
		if exit == 0 {
			return core.Fail("C15.refusal_exit0", "%s must be refused but the exit status is 0", desc)
		}
		c.Stats.Inc("probe.exit_nonzero")
		if p.Op == "decrypt-p" || p.Op == "decrypt-sshenc" {
			return untouched()
		}
		if exists && !preOK {
			// encryption refused before anything could be encrypted: a created -o is not a complete result
			if len(got) != 0 {
				return core.Fail("C15.refusal_created_output", "%s was refused and left %d bytes in a new -o file", desc, len(got))
			}
		}
	}
	return nil
}

func genOutsidersFixed(listed []world.Key) []world.Key {
	var out []world.Key
	cands := []world.Key{{T: "x", K: 7}, {T: "e", K: 5}, {T: "r", K: 4}, {T: "x", K: 6}, {T: "e", K: 4}, {T: "x", K: 5}}
	for _, cnd := range cands {
		clash := false
		for _, l := range listed {
			if world.SameKey(l, cnd) {
				clash = true
			}
		}
		if !clash {
			out = append(out, cnd)
		}
	}
	return out
}

func argvTail(argv []string, dir string) []string {
	var out []string
	for _, a := range argv[1:] {
		a = strings.ReplaceAll(a, dir, "$D")
		if len(a) > 40 {
			a = a[:37] + "..."
		}
		out = append(out, a)
	}
	return out
}

func clipS(s string) string {
	if len(s) > 200 {
		return s[:200] + "..."
	}
	return s
}
