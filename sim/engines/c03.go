package engines

import (
	"bytes"
	"fmt"

	"filippo.io/age"

	"verif/sim/core"
	"verif/sim/lib"
	"verif/sim/ref"
	"verif/sim/seam"
	"verif/sim/world"
)

// C03 — any change to the header invalidates the file before any output.

type HeaderEdit struct {
	Kind string `json:"kind"`
	// byte level: flip insert delete subst ; write level: wdrop wdup wswap ;
	// structural (reference writer, MAC left stale unless stated): type arg argdel argadd body bodylen
	// grease_insert stanza_delete stanza_dup permute mac_random mac_otherkey
	Off  int    `json:"off,omitempty"`
	Bit  int    `json:"bit,omitempty"`
	Byte int    `json:"byte,omitempty"`
	I    int    `json:"i,omitempty"`
	J    int    `json:"j,omitempty"`
	N    int    `json:"n,omitempty"`
	Perm []int  `json:"perm,omitempty"`
	S    string `json:"s,omitempty"`
}

type C03Plan struct {
	File     lib.FileSpec  `json:"file"`
	Sweep    bool          `json:"sweep,omitempty"`
	Edit     *HeaderEdit   `json:"edit,omitempty"`
	Delivery seam.Delivery `json:"delivery"`
}

type C03 struct{}

func (C03) ID() string           { return "C03" }
func (C03) Title() string        { return "storage faults and attacker edits on the header" }
func (C03) NewPlan() interface{} { return &C03Plan{} }
func (C03) Runs(tier string) int {
	if tier == "thorough" {
		return 150000
	}
	return 6000
}

func (C03) Meta() core.Meta {
	return core.Meta{
		Level:       "fault_enumeration",
		Rule:        "a case = (file with 1..5 stanzas, one header edit, one identity able to open the original — alone, or listed before or after an identity that matches nothing —, delivery schedule). Sweep runs enumerate every single-bit flip of the header bytes of a small file, every insertion of a byte from a 12-character alphabet (digits, sign, space, padding, CR, TAB, LF, ...) every doubled byte, every deleted byte, 5 substitutions of every byte and the base64url alias of every '+' and '/', at every offset; sampled runs apply one byte-level edit (insert/delete/substitute incl. CR, space, '='), one line-ending/separator translation (CR before a line end, CRLF everywhere, trailing space, blank line, joined lines, tab or double space for a separator; short strings such as an extra token, padding characters, a second footer prefix or an extra stanza line inserted at the end or start of a line; sweep runs apply these to every line), one write-level fault on the recorded Header.Marshal write list (drop/duplicate/swap a write or a run of writes: lost, replayed, reordered flushes) or one structural edit by the reference writer with the MAC left stale or replaced (type/argument/body substitution, grease insertion at every position, stanza deletion/duplication/permutation, MAC random or under another file key). Non-trivial = the image differs from the original; distinct = distinct (file skeleton, edit, identity, delivery).",
		Assumptions: []string{"the editor does not hold the file key (a recipient can always re-MAC; that is outside the property)", "HMAC-SHA-256/HKDF are the trusted base"},
		Real:        []string{"filippo.io/age Decrypt", "internal/format Parse", "X25519/scrypt/ssh identities", "headerMAC"},
		Stub:        []string{"ciphertext source", "stored header image (edited copy of what SimDisk recorded)", "crypto/rand.Reader (tape)", "byzantine editor (reference writer without the key)"},
		FaultKinds:  []string{"fault.flip", "fault.insert", "fault.delete", "fault.subst", "fault.wdrop", "fault.wdup", "fault.wswap", "fault.type", "fault.arg", "fault.argdel", "fault.argadd", "fault.argswap", "fault.body", "fault.bodylen", "fault.grease_insert", "fault.stanza_delete", "fault.stanza_dup", "fault.permute", "fault.mac_random", "fault.mac_otherkey", "fault.eol_cr", "fault.eol_crlf_all", "fault.eol_space", "fault.eol_blank", "fault.eol_join", "fault.sep_tab", "fault.sep_double", "fault.ins_str"},
		Probes:      []string{"probe.edit_in_other_recipients_stanza", "probe.still_parseable", "probe.unparseable", "probe.trivial_same_image", "probe.rejected_bad_mac", "probe.rejected_no_match", "probe.bufio_reuse_path", "probe.bufio_rewrap_path", "probe.fault_landed_in_payload", "probe.identity_list_alone", "probe.identity_list_first-of-two", "probe.identity_list_last-of-two", "probe.honest_file_after_the_edited_ones"},
	}
}

func (C03) Generate(r *core.RNG, tier string, idx uint64) interface{} {
	p := &C03Plan{}
	p.File.Tape = r.U64() % 100000
	p.File.PSeed = r.U64() % 100000
	p.File.PLen = r.Pick(0, 1, 20, 100)
	p.Delivery = seam.GenDelivery(r)
	p.Delivery.Seed %= 50
	if idx%25 == 0 {
		p.Sweep = true
		p.File.Recips = lib.GenRecips(r, 3, tier == "thorough" && r.Chance(1, 5), true)
		lib.ClampGrease(p.File.Recips, 96)
		return p
	}
	p.File.Recips = lib.GenRecips(r, 5, r.Chance(1, 3), true)
	e := &HeaderEdit{}
	kinds := []string{"insert", "delete", "subst", "wdrop", "wdup", "wswap", "type", "arg", "argdel", "argadd", "argswap", "argswap", "body", "bodylen",
		"grease_insert", "stanza_delete", "stanza_dup", "permute", "mac_random", "mac_otherkey", "flip",
		"eol_cr", "eol_crlf_all", "eol_space", "eol_blank", "eol_join", "sep_tab", "sep_double", "ins_str", "ins_str"}
	e.Kind = kinds[r.Intn(len(kinds))]
	e.Off = r.Intn(2000)
	e.Bit = r.Intn(8)
	e.Byte = r.Pick('\r', ' ', '=', '\n', '-', 'A', 0, 0x80, '>', r.Intn(256))
	e.I = r.Intn(40)
	e.J = r.Intn(40)
	e.N = r.Range(1, 6)
	if e.Kind == "ins_str" {
		e.N = r.Intn(64)
	}
	if e.Kind == "permute" {
		n := 5
		for i := 0; i < n; i++ {
			e.Perm = append(e.Perm, i)
		}
		for i := n - 1; i > 0; i-- {
			j := r.Intn(i + 1)
			e.Perm[i], e.Perm[j] = e.Perm[j], e.Perm[i]
		}
	}
	e.S = []string{"X25519", "scrypt", "ssh-ed25519", "x25519", "grease", "A", "AAAAAAAAAAAAAAAAAAAAAAAAAAAAAAAAAAAAAAAAAAA", "1"}[r.Intn(8)]
	p.Edit = e
	return p
}

// insDict: short byte strings a transport or an editor may add to a text header
var insDict = []string{" x", " AAAA", " a b c", "\n", "\n\n", " ", "=", "==", "-> x\n", "--- ", "\t", " \n", "\r\n", "# c\n", " 0"}

func (C03) Shrinks(plan interface{}) []interface{} {
	p := plan.(*C03Plan)
	var out []interface{}
	add := func(f func(q *C03Plan)) {
		q := *p
		q.File.Recips = append([]lib.Recip(nil), p.File.Recips...)
		if p.Edit != nil {
			e := *p.Edit
			q.Edit = &e
		}
		f(&q)
		out = append(out, &q)
	}
	if len(p.File.Recips) > 1 {
		for i := range p.File.Recips {
			i := i
			add(func(q *C03Plan) { q.File.Recips = append(q.File.Recips[:i:i], q.File.Recips[i+1:]...) })
		}
	}
	if p.File.PLen > 0 {
		add(func(q *C03Plan) { q.File.PLen = 0 })
	}
	if p.Delivery.Mode != "whole" || p.Delivery.Bufio != 0 {
		add(func(q *C03Plan) { q.Delivery = seam.Delivery{Mode: "whole"} })
		add(func(q *C03Plan) { q.Delivery.Bufio = 0 })
	}
	if p.Edit != nil && p.Edit.N > 1 {
		add(func(q *C03Plan) { q.Edit.N = 1 })
	}
	return out
}

// applyHeaderEdit returns the edited file image (ok=false if the edit does not apply).
func applyHeaderEdit(e *HeaderEdit, F []byte, l *lib.Layout, disk *seam.SimDisk, key world.Key) ([]byte, bool) {
	hl := l.HeaderLen
	hdr := F[:hl]
	rest := F[hl:]
	join := func(h []byte) []byte { return append(append([]byte(nil), h...), rest...) }
	switch e.Kind {
	case "flip":
		h := append([]byte(nil), hdr...)
		h[e.Off%hl] ^= 1 << uint(e.Bit%8)
		return join(h), true
	case "insert":
		o := e.Off % (hl + 1)
		h := append(append(append([]byte(nil), hdr[:o]...), byte(e.Byte)), hdr[o:]...)
		return join(h), true
	case "delete":
		o := e.Off % hl
		h := append(append([]byte(nil), hdr[:o]...), hdr[o+1:]...)
		return join(h), true
	case "subst":
		h := append([]byte(nil), hdr...)
		h[e.Off%hl] = byte(e.Byte)
		return join(h), true
	case "ins_str":
		// a few bytes inserted at the end or the start of a line (extra tokens, extra lines)
		var nl []int
		for i, b := range hdr {
			if b == '\n' {
				nl = append(nl, i)
			}
		}
		at := nl[e.I%len(nl)] // before the line end
		if e.J%3 == 0 {
			at++ // at the start of the next line
		}
		tok := insDict[e.N%len(insDict)]
		return join(append(append(append([]byte(nil), hdr[:at]...), tok...), hdr[at:]...)), true
	case "eol_cr", "eol_crlf_all", "eol_space", "eol_blank", "eol_join", "sep_tab", "sep_double":
		// line-ending and separator translation, the classic transport damage of text headers
		var nl, sp []int
		for i, b := range hdr {
			if b == '\n' {
				nl = append(nl, i)
			}
			if b == ' ' {
				sp = append(sp, i)
			}
		}
		ins := func(at int, x string) []byte {
			return append(append(append([]byte(nil), hdr[:at]...), x...), hdr[at:]...)
		}
		switch e.Kind {
		case "eol_cr":
			return join(ins(nl[e.I%len(nl)], "\r")), true
		case "eol_crlf_all":
			return join(bytes.ReplaceAll(hdr, []byte("\n"), []byte("\r\n"))), true
		case "eol_space":
			return join(ins(nl[e.I%len(nl)], " ")), true
		case "eol_blank":
			return join(ins(nl[e.I%len(nl)], "\n")), true
		case "eol_join":
			at := nl[e.I%len(nl)]
			return join(append(append([]byte(nil), hdr[:at]...), hdr[at+1:]...)), true
		case "sep_tab":
			h := append([]byte(nil), hdr...)
			h[sp[e.I%len(sp)]] = '\t'
			return join(h), true
		default:
			return join(ins(sp[e.I%len(sp)], " ")), true
		}
	case "wdrop", "wdup", "wswap":
		// the header's write list as the library issued it
		var ws [][]byte
		for _, w := range disk.Writes {
			if w.Off+w.Len <= hl {
				ws = append(ws, F[w.Off:w.Off+w.Len])
			}
		}
		n := len(ws)
		if n == 0 {
			return nil, false
		}
		i := e.I % n
		cnt := e.N
		if i+cnt > n {
			cnt = n - i
		}
		var out [][]byte
		switch e.Kind {
		case "wdrop":
			out = append(append(out, ws[:i]...), ws[i+cnt:]...)
		case "wdup":
			out = append(append(append(out, ws[:i+cnt]...), ws[i:i+cnt]...), ws[i+cnt:]...)
		case "wswap":
			j := e.J % n
			out = append(out, ws...)
			out[i], out[j] = out[j], out[i]
		}
		return join(bytes.Join(out, nil)), true
	}
	// structural edits through the reference writer
	h := &ref.Header{MAC: append([]byte(nil), l.Header.MAC...)}
	for _, s := range l.Header.Stanzas {
		h.Stanzas = append(h.Stanzas, s.Clone())
	}
	n := len(h.Stanzas)
	i := e.I % n
	switch e.Kind {
	case "type":
		h.Stanzas[i].Type = e.S
	case "arg":
		if len(h.Stanzas[i].Args) == 0 {
			h.Stanzas[i].Args = []string{e.S}
		} else {
			h.Stanzas[i].Args[e.J%len(h.Stanzas[i].Args)] = e.S
		}
	case "argdel":
		if len(h.Stanzas[i].Args) == 0 {
			return nil, false
		}
		h.Stanzas[i].Args = h.Stanzas[i].Args[:len(h.Stanzas[i].Args)-1]
	case "argadd":
		h.Stanzas[i].Args = append(h.Stanzas[i].Args, e.S)
	case "argswap":
		// the same tokens in another order: two arguments exchanged, the type exchanged with an argument, or
		// the last argument moved to the next stanza (the longest token of the header is preferred)
		st := h.Stanzas[i]
		long, li := 0, -1
		for si, s2 := range h.Stanzas {
			for _, a := range s2.Args {
				if len(a) > long {
					long, li = len(a), si
				}
			}
		}
		if li >= 0 && e.Bit%2 == 0 {
			st = h.Stanzas[li]
			i = li
		}
		if len(st.Args) == 0 {
			return nil, false
		}
		a := e.J % len(st.Args)
		switch e.N % 3 {
		case 0:
			b := (a + 1 + e.Bit%len(st.Args)) % len(st.Args)
			if st.Args[a] == st.Args[b] {
				return nil, false
			}
			st.Args[a], st.Args[b] = st.Args[b], st.Args[a]
		case 1:
			// longest argument first
			bi := 0
			for k := range st.Args {
				if len(st.Args[k]) > len(st.Args[bi]) {
					bi = k
				}
			}
			if st.Type == st.Args[bi] {
				return nil, false
			}
			st.Type, st.Args[bi] = st.Args[bi], st.Type
		default:
			if i+1 >= n {
				return nil, false
			}
			last := st.Args[len(st.Args)-1]
			st.Args = st.Args[:len(st.Args)-1]
			h.Stanzas[i+1].Args = append([]string{last}, h.Stanzas[i+1].Args...)
		}
	case "body":
		b := h.Stanzas[i].Body
		if len(b) == 0 {
			h.Stanzas[i].Body = []byte{byte(e.Byte)}
		} else {
			b[e.Off%len(b)] ^= 1 << uint(e.Bit%8)
		}
	case "bodylen":
		b := h.Stanzas[i].Body
		switch e.J % 6 {
		case 3:
			// leading zero bytes: the same number for an integer-valued body (RSA), other bytes for the header
			h.Stanzas[i].Body = append(make([]byte, 1+e.N%3), b...)
		case 4:
			h.Stanzas[i].Body = append(make([]byte, 48), b...)
		case 5:
			if len(b) == 0 {
				return nil, false
			}
			h.Stanzas[i].Body = b[1:]
		case 0:
			h.Stanzas[i].Body = append(b, byte(e.Byte))
		case 1:
			if len(b) == 0 {
				return nil, false
			}
			h.Stanzas[i].Body = b[:len(b)-1]
		default:
			h.Stanzas[i].Body = append(b, make([]byte, 48)...)
		}
	case "grease_insert":
		g := &ref.Stanza{Type: "grease-" + e.S, Args: []string{"x"}, Body: core.Pattern(uint64(e.Off), e.Off%100)}
		switch e.J % 4 {
		case 1:
			g.Type = e.S + "-grease" // how age implementations name the grease they add themselves
		case 2:
			g.Type, g.Args = []string{"grease", "stanza", "empty", "Q]-grease"}[e.Bit%4], nil
			if e.Bit >= 4 {
				g.Body = nil
			}
		}
		if e.J%4 == 0 {
			// attacker-made stanza of a native type addressed to somebody else
			g = ref.WrapX25519(make([]byte, 16), core.Pattern(uint64(e.Off), 32), ref.X25519Public(core.Pattern(99, 32)))
		}
		pos := e.I % (n + 1)
		if e.I%3 == 0 {
			pos = n // appended after the last stanza
		}
		ins := []*ref.Stanza{g}
		if e.N%3 == 0 {
			ins = append(ins, g.Clone())
		}
		h.Stanzas = append(h.Stanzas[:pos:pos], append(ins, h.Stanzas[pos:]...)...)
	case "stanza_delete":
		h.Stanzas = append(h.Stanzas[:i:i], h.Stanzas[i+1:]...)
	case "stanza_dup":
		pos := e.J % (n + 1)
		d := h.Stanzas[i].Clone()
		h.Stanzas = append(h.Stanzas[:pos:pos], append([]*ref.Stanza{d}, h.Stanzas[pos:]...)...)
	case "permute":
		var idx []int
		for _, x := range e.Perm {
			if x < n {
				idx = append(idx, x)
			}
		}
		if len(idx) != n {
			return nil, false
		}
		var ns []*ref.Stanza
		for _, x := range idx {
			ns = append(ns, h.Stanzas[x])
		}
		h.Stanzas = ns
	case "mac_random":
		h.MAC = core.Pattern(uint64(e.Off)+5, 32)
	case "mac_otherkey":
		h.MAC = ref.HeaderMAC(core.Pattern(uint64(e.Off)+9, 16), h)
	default:
		return nil, false
	}
	return join(ref.MarshalHeader(h)), true
}

// Execute runs the edited headers and then lets the same identity objects open the unedited file once more.
func (e C03) Execute(plan interface{}, c *core.Ctx) *core.Verdict {
	var after func() *core.Verdict
	if v := e.exec(plan, c, &after); v != nil {
		return v
	}
	if after != nil {
		return after()
	}
	return nil
}

func (e C03) exec(plan interface{}, c *core.Ctx, after *func() *core.Verdict) *core.Verdict {
	p := plan.(*C03Plan)
	spec := p.File
	spec.Armor = false
	F, disk := lib.MustEncrypt(spec)
	keys := spec.Keys()
	l, err := lib.ParseLayout(F, keys[0])
	if err != nil {
		return core.Fail("C03.baseline", "reference cannot parse the honest header: %v", err)
	}
	// distinct opening identities
	var openers []world.Key
	for _, k := range keys {
		dup := false
		for _, o := range openers {
			if world.SameKey(o, k) {
				dup = true
			}
		}
		if !dup {
			openers = append(openers, k)
		}
	}
	deliveries := []seam.Delivery{p.Delivery}
	if p.Delivery.Mode != "whole" || p.Delivery.Bufio != 0 {
		deliveries = append(deliveries, seam.Delivery{Mode: "whole"})
	} else {
		deliveries = append(deliveries, seam.Delivery{Mode: "whole", Bufio: 4096})
	}

	// an identity that matches no stanza of the file
	outsider := world.Key{T: "x", K: 0}
	for cand := 0; cand < world.NX25519; cand++ {
		outsider = world.Key{T: "x", K: cand}
		clash := false
		for _, k := range keys {
			if world.SameKey(k, outsider) {
				clash = true
			}
		}
		if !clash {
			break
		}
	}
	// identity objects live for the whole run (one per key): what an edited header does to them is part of the case
	idObjs := map[string]age.Identity{}
	idOf := func(k world.Key) age.Identity {
		if idObjs[k.String()] == nil {
			idObjs[k.String()] = world.Identity(k)
		}
		return idObjs[k.String()]
	}
	*after = func() *core.Verdict {
		for _, k := range openers {
			res := lib.Decrypt(seam.NewSource(F, seam.Delivery{Mode: "whole"}, nil, nil).Reader(), false, []age.Identity{idOf(k)}, lib.ReadSched{Mode: "all"}, nil)
			c.Stats.Inc("probe.honest_file_after_the_edited_ones")
			if !res.Clean() || !bytes.Equal(res.Released, spec.Plain()) {
				return core.Fail("C03.poisoned_next", "after the edited headers were rejected, the unedited file opened with the same identity object (%s) gives %d bytes, %s", k, len(res.Released), res.ErrText())
			}
		}
		return nil
	}
	shapeCtr := p.Delivery.Bufio + len(p.File.Recips) // deterministic starting point
	check := func(ed *HeaderEdit) *core.Verdict {
		img, ok := applyHeaderEdit(ed, F, l, disk, keys[0])
		if !ok {
			return nil
		}
		narrow := func(d seam.Delivery) interface{} {
			q := *p
			q.Sweep = false
			x := *ed
			q.Edit = &x
			q.Delivery = d
			return &q
		}
		same := bytes.Equal(img, F)
		if same {
			c.Stats.Inc("probe.trivial_same_image")
		} else {
			c.Stats.Inc("fault." + ed.Kind)
			if _, _, err := ref.ParseHeader(img); err == nil {
				c.Stats.Inc("probe.still_parseable")
			} else {
				c.Stats.Inc("probe.unparseable")
			}
		}
		shapeCtr++
		for oi, k := range openers {
			// the identity able to open the file, alone or next to identities that match nothing
			ids := []age.Identity{idOf(k)}
			shape := "alone"
			switch (shapeCtr + oi) % 3 {
			case 1:
				ids = append(ids, idOf(outsider))
				shape = "first-of-two"
			case 2:
				ids = append([]age.Identity{idOf(outsider)}, ids...)
				shape = "last-of-two"
			}
			c.Stats.Inc("probe.identity_list_" + shape)
			for _, d := range deliveries {
				if d.Bufio >= 4096 {
					c.Stats.Inc("probe.bufio_reuse_path")
				} else {
					c.Stats.Inc("probe.bufio_rewrap_path")
				}
				src := seam.NewSource(img, d, nil, nil)
				r, err := age.Decrypt(src.Reader(), ids...)
				c.Log.Add("edit %+v id=%s(%s) delivery=%s -> err=%v reader=%v", *ed, k, shape, d, err, r != nil)
				c.Stats.Eval(fmt.Sprintf("%s|%+v|%s|%s|%s", spec.Skeleton(), *ed, k, shape, d), !same)
				if same {
					if err != nil {
						v := core.Fail("C03.honest_rejected", "unedited file rejected for identity %s: %v", k, err)
						v.Narrow = narrow(d)
						return v
					}
					continue
				}
				if err == nil && bytes.HasPrefix(img, F[:l.HeaderLen]) {
					// the header bytes are intact and the fault landed behind them: that is a
					// payload change (C02): a reader may be returned but must not end cleanly
					c.Stats.Inc("probe.fault_landed_in_payload")
					res := &lib.DecResult{}
					lib.Drain(r, lib.ReadSched{Mode: "all"}, res, nil)
					if res.Clean() || !lib.IsPrefix(res.Released, spec.Plain()) {
						v := core.Fail("C03.payload_accepted", "fault %+v behind an intact header: clean end of stream or wrong bytes (%d released)", *ed, len(res.Released))
						v.Narrow = narrow(d)
						return v
					}
					continue
				}
				if err == nil {
					v := core.Fail("C03.accepted", "header edit %+v on %s accepted for identity %s (identity list: %s; delivery %s): Decrypt returned no error", *ed, spec.Skeleton(), k, shape, d)
					v.Narrow = narrow(d)
					return v
				}
				if r != nil {
					v := core.Fail("C03.reader_with_error", "header edit %+v: Decrypt returned an error and a non-nil reader", *ed)
					v.Narrow = narrow(d)
					return v
				}
				switch {
				case err.Error() == "bad header MAC":
					c.Stats.Inc("probe.rejected_bad_mac")
					if len(openers) > 1 && oi > 0 {
						c.Stats.Inc("probe.edit_in_other_recipients_stanza")
					}
				case err.Error() == "no identity matched any of the recipients":
					c.Stats.Inc("probe.rejected_no_match")
				}
			}
		}
		return nil
	}

	if p.Sweep {
		for i := 0; i < 40; i++ {
			for _, k := range []string{"eol_cr", "eol_space", "eol_blank", "eol_join", "sep_tab", "sep_double"} {
				if v := check(&HeaderEdit{Kind: k, I: i}); v != nil {
					return v
				}
			}
		}
		if v := check(&HeaderEdit{Kind: "eol_crlf_all"}); v != nil {
			return v
		}
		for i := 0; i < 40; i++ {
			for n := range insDict {
				for j := 0; j < 2; j++ {
					if v := check(&HeaderEdit{Kind: "ins_str", I: i, J: j, N: n}); v != nil {
						return v
					}
				}
			}
		}
		// every offset x a small alphabet of inserted bytes, and every byte doubled
		for off := 0; off <= l.HeaderLen; off++ {
			for _, b := range []byte("0+- =A1\r\t\n/x") {
				if v := check(&HeaderEdit{Kind: "insert", Off: off, Byte: int(b)}); v != nil {
					return v
				}
			}
			if off < l.HeaderLen {
				if v := check(&HeaderEdit{Kind: "insert", Off: off, Byte: int(F[off])}); v != nil {
					return v
				}
				if v := check(&HeaderEdit{Kind: "delete", Off: off}); v != nil {
					return v
				}
				for _, b := range []byte(" \n=0A") {
					if b != F[off] {
						if v := check(&HeaderEdit{Kind: "subst", Off: off, Byte: int(b)}); v != nil {
							return v
						}
					}
				}
				// characters another alphabet or notation uses for the same value: base64url for standard base64,
				// the other letter case
				alias := map[byte][]byte{'+': []byte("-"), '/': []byte("_"), '-': []byte("+"), '_': []byte("/"), '=': []byte(".")}[F[off]]
				for _, b := range alias {
					if v := check(&HeaderEdit{Kind: "subst", Off: off, Byte: int(b)}); v != nil {
						return v
					}
				}
			}
		}
		for off := 0; off < l.HeaderLen; off++ {
			for bit := 0; bit < 8; bit++ {
				if v := check(&HeaderEdit{Kind: "flip", Off: off, Bit: bit}); v != nil {
					return v
				}
			}
		}
		return nil
	}
	if p.Edit == nil {
		return core.Fail("harness", "empty plan")
	}
	return check(p.Edit)
}
