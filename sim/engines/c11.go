package engines

import (
	"bytes"
	"errors"
	"filippo.io/age/plugin"
	"fmt"
	"io"
	"os"
	"sort"
	"strings"

	"filippo.io/age"

	"verif/sim/core"
	"verif/sim/lib"
	"verif/sim/ref"
	"verif/sim/seam"
	"verif/sim/world"
)

// C11 — recipients with different label sets cannot share a file; nothing is
// written when a recipient list is refused.

// LRecip is one recipient of a C11 list.
type LRecip struct {
	Native  *world.Key `json:"native,omitempty"`  // real recipient (x, e, r: no labels; s: random label)
	Variant string     `json:"variant,omitempty"` // sim-owned: "plain" (Recipient only), "nil", "empty", "list"; "plugin": a real plugin.Recipient talking to a scripted plugin (labels sent as a labels stanza)
	Wrapped bool       `json:"wrapped,omitempty"` // native: the recipient is reached through a struct that embeds it (all its methods, another concrete type)
	ViaID   bool       `json:"via_id,omitempty"`  // plugin: the recipient is plugin.NewIdentity(...).Recipient() (encrypting to a plugin identity)
	Script  string     `json:"script,omitempty"`  // plugin: "ok" | "stanza+error" | "error+stanza" | "error" | "dies" (what the plugin answers)
	Labels  []string   `json:"labels,omitempty"`  // order as returned
	Fail    bool       `json:"fail,omitempty"`    // injected wrap failure
	XKey    int        `json:"xkey"`              // sim-owned recipients wrap to this X25519 fixture key
	Big     int        `json:"big,omitempty"`     // sim-owned: additionally emits an unknown stanza with a body of this many bytes
	Mute    bool       `json:"mute,omitempty"`    // sim-owned: wraps successfully to NO stanza at all (its labels count all the same)
}

type C11Plan struct {
	Recips   []LRecip `json:"recips"`
	PLen     int      `json:"plen"`
	Tape     uint64   `json:"tape"`
	RandFail int      `json:"rand_fail,omitempty"` // k>0: draw k-1 from the CSPRNG fails once (a recipient that draws there fails to wrap)
	CLI      *C11CLI  `json:"cli,omitempty"`       // the same question asked of the real age binary with real plugin processes (c11_cli.go)
}

// simRecipient wraps to a real X25519 key and declares labels per variant.
type simPlain struct {
	inner age.Recipient
	mute  bool
	fail  bool
	calls *int
	big   int
}

func (s *simPlain) Wrap(fk []byte) ([]*age.Stanza, error) {
	*s.calls++
	if s.fail {
		if s.big%2 == 1 || *s.calls%2 == 0 {
			// a failing recipient may still hand back what it produced so far: none of it may be used
			st, _ := s.inner.Wrap(fk)
			return st, errors.New("sim: injected wrap failure (with partial stanzas)")
		}
		return nil, errors.New("sim: injected wrap failure")
	}
	if s.mute {
		return nil, nil
	}
	st, err := s.inner.Wrap(fk)
	if err == nil && s.big > 0 {
		st = append(st, &age.Stanza{Type: "sim-big", Args: []string{"x"}, Body: make([]byte, s.big)})
	}
	return st, err
}

type simLabeled struct {
	simPlain
	labels []string
}

func (s *simLabeled) WrapWithLabels(fk []byte) ([]*age.Stanza, []string, error) {
	st, err := s.Wrap(fk)
	if err != nil {
		return nil, nil, err
	}
	return st, s.labels, nil
}

// simPlugin is the peer of one plugin.Recipient conversation, reached through the plugin.VerifTransport seam.
// The client writes its whole first phase before it reads, so the answer is computed in Write and no task
// switching is needed: Read hands out the prepared answer and then reports EOF (the plugin is gone).
type simPlugin struct {
	script string
	labels []string
	inner  age.Recipient
	in     bytes.Buffer
	out    bytes.Buffer
	done   bool
}

func (sp *simPlugin) Write(p []byte) (int, error) {
	sp.in.Write(p)
	if sp.done || !bytes.HasSuffix(sp.in.Bytes(), []byte("-> done\n\n")) {
		return len(p), nil
	}
	sp.done = true
	text := sp.in.String()
	i := strings.Index(text, "-> wrap-file-key\n")
	if i < 0 {
		return len(p), nil
	}
	line, _, _ := strings.Cut(text[i+len("-> wrap-file-key\n"):], "\n")
	fk, err := ref.UnB64(line)
	if err != nil {
		return len(p), nil
	}
	stanza := func() {
		sts, err := sp.inner.Wrap(fk)
		if err != nil {
			return
		}
		for _, st := range sts {
			sp.out.Write(ref.MarshalStanza(&ref.Stanza{Type: "recipient-stanza", Args: append([]string{"0", st.Type}, st.Args...), Body: st.Body}))
		}
	}
	failure := func() {
		sp.out.Write(ref.MarshalStanza(&ref.Stanza{Type: "error", Args: []string{"recipient", "0"}, Body: []byte("simulated token failure")}))
	}
	if len(sp.labels) > 0 {
		sp.out.Write(ref.MarshalStanza(&ref.Stanza{Type: "labels", Args: sp.labels}))
	}
	switch sp.script {
	case "ok":
		stanza()
		sp.out.WriteString("-> done\n\n")
	case "stanza+error":
		stanza()
		failure()
		sp.out.WriteString("-> done\n\n")
	case "error+stanza":
		failure()
		stanza()
		sp.out.WriteString("-> done\n\n")
	case "error":
		failure()
		sp.out.WriteString("-> done\n\n")
	case "dies":
		stanza() // and then the process is gone: no done
	}
	return len(p), nil
}

func (sp *simPlugin) Read(p []byte) (int, error) {
	if sp.out.Len() == 0 {
		return 0, io.EOF
	}
	return sp.out.Read(p)
}

// embeddedScrypt is a caller's own type around a passphrase recipient: same methods, other concrete type.
type embeddedScrypt struct{ *age.ScryptRecipient }

type C11 struct{}

func (C11) ID() string { return "C11" }
func (C11) Title() string {
	return "label sets and wrap failures at every position, destination observed for writes"
}
func (C11) NewPlan() interface{} { return &C11Plan{} }
func (C11) Runs(tier string) int {
	if tier == "thorough" {
		return 1500000
	}
	return 60000
}

func (C11) Meta() core.Meta {
	return core.Meta{
		Level:       "exploration",
		Rule:        "a case = list of 1..6 recipients (occasionally 40..70, or with recipients emitting stanzas of 3..70 KB so that several KiB of header exist before the refusal), each native (X25519, ssh-ed25519, ssh-rsa: no labels; scrypt: fresh random label) or sim-owned with an interface variant (Recipient only / RecipientWithLabels returning nil / empty / a list in some order, possibly repeating a label) and optionally an injected wrap failure; the differing or failing recipient is placed at every position. Oracle: Encrypt succeeds iff all label sets are equal and no wrap failed; on refusal the destination saw zero Write calls; on success every real recipient decrypts. Non-trivial = at least two recipients or a failure; distinct = distinct recipient-list skeletons.",
		Assumptions: []string{"label lists may repeat a label; where the set reading and the sorted-list reading of 'same labels' disagree nothing is asserted about acceptance (only that a refusal wrote nothing)", "plugin recipients take part through the plugin.VerifTransport seam with a scripted peer whose whole answer is ready when the client starts reading (all other plugin behaviour is C16's)"},
		Real:        []string{"filippo.io/age Encrypt (label comparison, wrap loop, header marshal)", "native recipients", "plugin.Recipient (client side of the plugin protocol)", "cmd/age binary with real plugin processes (one run in 40: shell scripts speaking recipient-v1, one name without a binary)"},
		Stub:        []string{"sim-owned recipients with chosen label lists / injected wrap failure", "destination (write-call counter)", "crypto/rand.Reader (tape)"},
		FaultKinds:  []string{"fault.wrap_failure", "fault.csprng_read_fails_once", "fault.cli_plugin_binary_missing"},
		Probes:      []string{"probe.equal_sets_different_order", "probe.proper_subset", "probe.disjoint", "probe.empty_vs_absent", "probe.scrypt_with_other", "probe.two_scrypt", "probe.refused_labels", "probe.refused_wrap_failure", "probe.accepted", "probe.fail_at_last_position", "probe.differ_at_last_position", "probe.repeated_label_same_multiset", "probe.repeated_label_sets_differ", "probe.repeated_label_ambiguous", "probe.refused_after_more_than_4KiB_of_header", "probe.labels_with_space_or_empty", "probe.plugin_recipient", "probe.plugin_recipient_from_identity", "probe.embedded_scrypt_recipient", "probe.cli_real_plugin_processes", "probe.cli_refused_list", "probe.cli_accepted_list", "probe.cli_recipients_file", "probe.recipient_without_stanza"},
	}
}

var labelPool = []string{"postquantum", "a", "b", "hw", "zz-top", "A"}

func (C11) Generate(r *core.RNG, tier string, idx uint64) interface{} {
	if idx%40 == 7 && os.Getenv("AGE_BIN") != "" {
		return &C11Plan{CLI: genC11CLI(r)}
	}
	p := &C11Plan{PLen: r.Pick(0, 1, 100), Tape: r.U64() % 1000000}
	n := r.Range(1, 6)
	// a base label set shared by most recipients
	var base []string
	for _, l := range labelPool {
		if r.Chance(1, 4) {
			base = append(base, l)
		}
	}
	shuffled := func(ls []string) []string {
		out := append([]string(nil), ls...)
		for i := len(out) - 1; i > 0; i-- {
			j := r.Intn(i + 1)
			out[i], out[j] = out[j], out[i]
		}
		return out
	}
	for i := 0; i < n; i++ {
		lr := LRecip{XKey: r.Intn(world.NX25519)}
		if len(base) == 0 && r.Chance(1, 3) {
			t := []string{"x", "e", "r"}[r.Intn(3)]
			lr.Native = &world.Key{T: t, K: r.Intn(4)}
		} else if len(base) == 0 {
			lr.Variant = []string{"plain", "nil", "empty"}[r.Intn(3)]
		} else {
			lr.Variant = "list"
			lr.Labels = shuffled(base)
		}
		p.Recips = append(p.Recips, lr)
	}
	// sometimes a large header is produced before the perturbed recipient is reached: a big stanza from a
	// sim-owned recipient, or a long list (anything written early would then have left a buffer)
	if r.Chance(1, 4) {
		for i := range p.Recips {
			if p.Recips[i].Native == nil && r.Chance(1, 2) {
				p.Recips[i].Big = r.Pick(3000, 5000, 9000, 70000)
			}
		}
	}
	if r.Chance(1, 20) {
		extra := r.Range(40, 70)
		for i := 0; i < extra; i++ {
			c := p.Recips[r.Intn(len(p.Recips))]
			c.XKey = r.Intn(world.NX25519)
			p.Recips = append(p.Recips, c)
		}
		n = len(p.Recips)
	}
	// perturb one position
	pos := r.Intn(n)
	if n > 4 && r.Bool() {
		pos = n - 1 - r.Intn(3)
	}
	switch r.Intn(11) {
	case 10: // labels that only differ once they are joined or trimmed: "a b" vs "a","b"; "" vs nothing; " " vs ""
		pairs := [][2][]string{{{"a", "a"}, {"b", "b"}}, {{"a", "a", "c"}, {"c", "b", "b"}}, {{"a", "a", "a"}, {"a", "b", "b"}}, {{"a b"}, {"a", "b"}}, {{"x", "y z"}, {"x", "y", "z"}}, {{""}, {}}, {{"", ""}, {" "}}, {{"a "}, {"a"}}, {{"a,b"}, {"a", "b"}}}
		pr := pairs[r.Intn(len(pairs))]
		for i := range p.Recips {
			ls := pr[0]
			if i == pos {
				ls = pr[1]
			}
			v := "list"
			if len(ls) == 0 {
				v = "empty"
			}
			p.Recips[i] = LRecip{Variant: v, Labels: append([]string(nil), ls...), XKey: i % 8}
		}
		if len(p.Recips) == 1 {
			p.Recips = append(p.Recips, LRecip{Variant: "list", Labels: append([]string(nil), pr[0]...), XKey: 7})
		}
	case 8: // a label repeated inside one list: same multiset everywhere (must be accepted) ...
		if len(base) > 0 {
			rep := append(shuffled(base), base[r.Intn(len(base))])
			for i := range p.Recips {
				if p.Recips[i].Variant == "list" {
					p.Recips[i].Labels = shuffled(rep)
				}
			}
		}
	case 9: // ... or a list of the same length that repeats one label and drops another (sets differ: must be refused)
		if len(base) > 1 {
			ls := shuffled(base)
			ls[0] = ls[1]
			p.Recips[pos] = LRecip{Variant: "list", Labels: ls, XKey: 5}
		} else {
			p.Recips[pos] = LRecip{Variant: "list", Labels: []string{"dup", "dup"}, XKey: 5}
		}
	case 0: // nothing: all equal
	case 1:
		p.Recips[pos].Fail = true
		if p.Recips[pos].Native != nil {
			p.Recips[pos] = LRecip{Variant: "plain", Fail: true, XKey: 1}
			if len(base) > 0 {
				p.Recips[pos].Variant = "list"
				p.Recips[pos].Labels = shuffled(base)
			}
		}
	case 2: // proper subset / superset
		ls := shuffled(base)
		if len(ls) > 0 && r.Bool() {
			ls = ls[1:]
		} else {
			ls = append(ls, "extra")
		}
		p.Recips[pos] = LRecip{Variant: "list", Labels: ls, XKey: 2}
		if len(ls) == 0 {
			p.Recips[pos].Variant = "empty"
		}
	case 3: // disjoint
		p.Recips[pos] = LRecip{Variant: "list", Labels: []string{"other", "labels"}, XKey: 3}
	case 4: // scrypt in the list
		p.Recips[pos] = LRecip{Native: &world.Key{T: "s", K: r.Intn(world.NPass), WF: 2}, Wrapped: r.Chance(1, 3)}
	case 5: // empty versus absent
		p.Recips[pos] = LRecip{Variant: []string{"plain", "nil", "empty"}[r.Intn(3)], XKey: 4}
	case 6: // native among labeled
		p.Recips[pos] = LRecip{Native: &world.Key{T: []string{"x", "e", "r"}[r.Intn(3)], K: r.Intn(4)}}
	case 7: // two scrypt
		w := r.Chance(1, 2)
		p.Recips[pos] = LRecip{Native: &world.Key{T: "s", K: 0, WF: 1}, Wrapped: w}
		p.Recips = append(p.Recips, LRecip{Native: &world.Key{T: "s", K: 1, WF: 1}, Wrapped: w && r.Bool()})
	}
	if r.Chance(1, 6) {
		// a plugin recipient somewhere in the list: it reports labels through the protocol and a wrap failure as an error stanza
		at := r.Intn(len(p.Recips))
		ls := []string(nil)
		if p.Recips[at].Variant == "list" {
			ok := true
			for _, l := range p.Recips[at].Labels {
				if l == "" || strings.ContainsAny(l, " ,") {
					ok = false
				}
			}
			if ok {
				ls = append(ls, p.Recips[at].Labels...)
			}
		}
		if p.Recips[at].Native == nil && (p.Recips[at].Variant != "list" || ls != nil) && !p.Recips[at].Fail {
			p.Recips[at] = LRecip{Variant: "plugin", Labels: ls, XKey: r.Intn(world.NX25519), Script: []string{"ok", "ok", "ok", "stanza+error", "error+stanza", "error", "dies"}[r.Intn(7)], ViaID: r.Chance(1, 3)}
		}
	}
	if r.Chance(1, 8) {
		// the entropy source fails once at some draw (file key, a recipient's ephemeral/salt/label, nonce)
		p.RandFail = 1 + r.Intn(2*len(p.Recips)+3)
	}
	if len(p.Recips) > 1 && r.Chance(1, 5) && p.RandFail == 0 {
		// one sim-owned recipient (often the first) contributes no stanza: nothing says a recipient must
		i := r.Pick(0, 0, r.Intn(len(p.Recips)))
		if lr := &p.Recips[i]; lr.Native == nil && lr.Variant != "plugin" && !lr.Fail && lr.Big == 0 {
			lr.Mute = true
		}
	}
	return p
}

func (C11) Shrinks(plan interface{}) []interface{} {
	p := plan.(*C11Plan)
	var out []interface{}
	if p.CLI != nil {
		cl := p.CLI
		for i := range cl.Recips {
			if len(cl.Recips) > 1 {
				q := *cl
				q.Recips = append(append([]string(nil), cl.Recips[:i]...), cl.Recips[i+1:]...)
				if i < len(cl.Via) {
					q.Via = append(append([]int(nil), cl.Via[:i]...), cl.Via[i+1:]...)
				}
				out = append(out, &C11Plan{CLI: &q})
			}
		}
		if len(cl.Via) > 0 {
			q := *cl
			q.Via = nil
			out = append(out, &C11Plan{CLI: &q})
		}
		if cl.PLen > 0 {
			q := *cl
			q.PLen = 0
			out = append(out, &C11Plan{CLI: &q})
		}
		if cl.PreExist {
			q := *cl
			q.PreExist = false
			out = append(out, &C11Plan{CLI: &q})
		}
		return out
	}
	if len(p.Recips) > 1 {
		for i := range p.Recips {
			q := *p
			q.Recips = append(append([]LRecip(nil), p.Recips[:i]...), p.Recips[i+1:]...)
			out = append(out, &q)
		}
	}
	for i, r := range p.Recips {
		if len(r.Labels) > 1 {
			q := *p
			q.Recips = append([]LRecip(nil), p.Recips...)
			q.Recips[i].Labels = r.Labels[1:]
			out = append(out, &q)
		}
	}
	if p.PLen > 0 {
		q := *p
		q.PLen = 0
		out = append(out, &q)
	}
	if p.RandFail > 1 {
		q := *p
		q.RandFail--
		out = append(out, &q)
	}
	return out
}

// setKey: the label list as a multiset (sorted with repeats).
func setKey(ls []string) string {
	s := append([]string(nil), ls...)
	sort.Strings(s)
	return fmt.Sprintf("%d:%q", len(s), s) // injective (a plain join is not: [""] vs [])
}

// pureSetKey: the label list as a set (sorted, repeats removed).
func pureSetKey(ls []string) string {
	s := append([]string(nil), ls...)
	sort.Strings(s)
	var out []string
	for i, x := range s {
		if i == 0 || x != s[i-1] {
			out = append(out, x)
		}
	}
	return fmt.Sprintf("%d:%q", len(out), out)
}

func (e C11) Execute(plan interface{}, c *core.Ctx) *core.Verdict {
	p := plan.(*C11Plan)
	if p.CLI != nil {
		return e.execCLI(p.CLI, c)
	}
	var recips []age.Recipient
	var plugins []*simPlugin // in list order: Encrypt wraps in list order, each Wrap opens one connection
	calls := make([]int, len(p.Recips))
	// model: label set per recipient ("*" marks a fresh random label no one else can share)
	expectOK := true
	anyFail := false
	var sets, pure []string
	skeleton := ""
	bigBefore := false
	for i, lr := range p.Recips {
		var set string
		switch {
		case lr.Native != nil && lr.Wrapped && lr.Native.T == "s":
			recips = append(recips, embeddedScrypt{world.Recipient(*lr.Native).(*age.ScryptRecipient)})
			c.Stats.Inc("probe.embedded_scrypt_recipient")
			set = fmt.Sprintf("*random-%d", i)
			skeleton += "s(embedded),"
		case lr.Native != nil:
			recips = append(recips, world.Recipient(*lr.Native))
			if lr.Native.T == "s" {
				set = fmt.Sprintf("*random-%d", i)
			}
			skeleton += lr.Native.T + ","
		case lr.Variant == "plugin":
			sp := &simPlugin{script: lr.Script, labels: lr.Labels, inner: world.Recipient(world.Key{T: "x", K: lr.XKey % world.NX25519})}
			plugins = append(plugins, sp)
			var pr *plugin.Recipient
			if lr.ViaID {
				pi, perr := plugin.NewIdentity(strings.ToUpper(ref.Bech32Encode("AGE-PLUGIN-SIMPLUG-", []byte{byte(i), 1, 2, 3})), &plugin.ClientUI{})
				if perr != nil {
					return core.Fail("harness", "plugin.NewIdentity: %v", perr)
				}
				pr = pi.Recipient()
				c.Stats.Inc("probe.plugin_recipient_from_identity")
			} else {
				var perr error
				pr, perr = plugin.NewRecipient(ref.Bech32Encode("age1simplug", []byte{byte(i), 1, 2, 3}), &plugin.ClientUI{})
				if perr != nil {
					return core.Fail("harness", "plugin.NewRecipient: %v", perr)
				}
			}
			recips = append(recips, pr)
			if len(lr.Labels) > 0 {
				set = setKey(lr.Labels)
				pure = append(pure, pureSetKey(lr.Labels))
			} else {
				pure = append(pure, "")
			}
			if lr.Script != "ok" {
				anyFail = true
			}
			skeleton += fmt.Sprintf("plugin:%s%v%v,", lr.Script, lr.Labels, lr.ViaID)
			c.Stats.Inc("probe.plugin_recipient")
		default:
			inner := world.Recipient(world.Key{T: "x", K: lr.XKey % world.NX25519})
			sp := simPlain{inner: inner, fail: lr.Fail, calls: &calls[i], big: lr.Big, mute: lr.Mute}
			if lr.Mute {
				c.Stats.Inc("probe.recipient_without_stanza")
			}
			switch lr.Variant {
			case "plain":
				recips = append(recips, &sp)
			case "nil":
				recips = append(recips, &simLabeled{sp, nil})
			case "empty":
				recips = append(recips, &simLabeled{sp, []string{}})
			default:
				recips = append(recips, &simLabeled{sp, append([]string(nil), lr.Labels...)})
				if len(lr.Labels) > 0 {
					set = setKey(lr.Labels)
				}
			}
			if lr.Variant == "list" && len(lr.Labels) > 0 {
				pure = append(pure, pureSetKey(lr.Labels))
			} else {
				pure = append(pure, "")
			}
			skeleton += fmt.Sprintf("%s%v%v,", lr.Variant, lr.Labels, lr.Fail)
			if lr.Mute {
				skeleton += "mute,"
			}
			if lr.Big > 0 {
				skeleton += fmt.Sprintf("big%d,", lr.Big)
				bigBefore = true
			}
			if lr.Fail {
				anyFail = true
			}
		}
		sets = append(sets, set)
		if len(pure) < len(sets) {
			pure = append(pure, set)
		}
	}
	// Lists with a repeated label: the statement speaks of sets, the code compares sorted lists. Where the two
	// readings disagree (equal as sets, different as multisets) nothing is asserted about acceptance.
	ambiguous := false
	for i := range sets {
		if (sets[i] == sets[0]) != (pure[i] == pure[0]) {
			ambiguous = true
		}
	}
	allEqual := true
	for i := range sets {
		if sets[i] != sets[0] || strings.HasPrefix(sets[i], "*") && len(sets) > 1 {
			allEqual = false
			if i == len(sets)-1 {
				c.Stats.Inc("probe.differ_at_last_position")
			}
		}
	}
	// probes on the shape
	nScrypt := 0
	for i, lr := range p.Recips {
		if lr.Native != nil && lr.Native.T == "s" {
			nScrypt++
		}
		if lr.Fail && i == len(p.Recips)-1 {
			c.Stats.Inc("probe.fail_at_last_position")
		}
		for j := 0; j < i; j++ {
			a, b := p.Recips[j], lr
			if a.Variant == "list" && b.Variant == "list" && setKey(a.Labels) == setKey(b.Labels) && strings.Join(a.Labels, ",") != strings.Join(b.Labels, ",") {
				c.Stats.Inc("probe.equal_sets_different_order")
			}
			if a.Variant == "list" && b.Variant == "list" && setKey(a.Labels) != setKey(b.Labels) {
				inter, sub := 0, 0
				for _, x := range a.Labels {
					for _, y := range b.Labels {
						if x == y {
							inter++
						}
					}
				}
				if inter == len(a.Labels) || inter == len(b.Labels) {
					sub = 1
				}
				if inter == 0 {
					c.Stats.Inc("probe.disjoint")
				} else if sub == 1 {
					c.Stats.Inc("probe.proper_subset")
				}
			}
			if sets[i] == "" && sets[j] == "" && a.Variant != b.Variant && a.Native == nil && b.Native == nil {
				c.Stats.Inc("probe.empty_vs_absent")
			}
		}
	}
	if nScrypt >= 2 {
		c.Stats.Inc("probe.two_scrypt")
	} else if nScrypt == 1 && len(p.Recips) > 1 {
		c.Stats.Inc("probe.scrypt_with_other")
	}
	expectOK = allEqual && !anyFail
	for _, lr := range p.Recips {
		for _, l := range lr.Labels {
			if l == "" || strings.ContainsAny(l, " ,") {
				c.Stats.Inc("probe.labels_with_space_or_empty")
			}
		}
	}
	for _, lr := range p.Recips {
		if lr.Variant == "list" && pureSetKey(lr.Labels) != setKey(lr.Labels) {
			if allEqual {
				c.Stats.Inc("probe.repeated_label_same_multiset")
			} else if !ambiguous {
				c.Stats.Inc("probe.repeated_label_sets_differ")
			}
			break
		}
	}

	d := seam.NewDisk(nil, c.Log)
	tape := seam.NewTape(p.Tape)
	if p.RandFail > 0 && expectOK && !ambiguous {
		// (only on lists that would otherwise be accepted: one cause of refusal per case)
		tape.FailAt = p.RandFail - 1
	}
	restore := tape.Install()
	if len(plugins) > 0 {
		next := 0
		plugin.VerifTransport = func(name, protocol string) (io.Reader, io.Writer, func()) {
			if next >= len(plugins) {
				return nil, nil, nil
			}
			sp := plugins[next]
			next++
			return sp, sp, func() {}
		}
		defer func() { plugin.VerifTransport = nil }()
	}
	w, err := age.Encrypt(d, recips...)
	randFired := tape.FailAt >= 0 && len(tape.Reads) > tape.FailAt
	if randFired {
		c.Stats.Inc("fault.csprng_read_fails_once")
	}
	var P []byte
	if err == nil {
		P = core.Pattern(p.Tape, p.PLen)
		_, werr := w.Write(P)
		cerr := w.Close()
		if werr != nil || cerr != nil {
			restore()
			return core.Fail("C11.write", "write/close failed: %v %v", werr, cerr)
		}
	}
	restore()
	c.Log.Add("Encrypt(%s) -> err=%v, dst write calls=%d", skeleton, err, d.Calls)
	if randFired {
		skeleton += fmt.Sprintf("randfail%d,", tape.FailAt)
	}
	c.Stats.Eval(skeleton, len(p.Recips) > 1 || anyFail || randFired)
	if anyFail {
		c.Stats.Inc("fault.wrap_failure")
	}
	if ambiguous {
		c.Stats.Inc("probe.repeated_label_ambiguous")
	}
	if err != nil && (bigBefore || len(p.Recips) > 40) {
		c.Stats.Inc("probe.refused_after_more_than_4KiB_of_header")
	}
	if err != nil && randFired {
		// the entropy source failed once. Before or inside a recipient's Wrap that is a wrap failure and nothing
		// may have been written; after the last Wrap (the payload nonce) the header is already out, complete.
		if w != nil {
			return core.Fail("C11.writer_with_error", "Encrypt returned an error and a writer")
		}
		if d.Calls != 0 {
			if h, _, perr := ref.ParseHeader(append(append([]byte(nil), d.Data...), make([]byte, 16)...)); perr != nil || len(h.Stanzas) < len(p.Recips) {
				return core.Fail("C11.wrote_before_refusal", "the CSPRNG failed at draw %d, Encrypt refused (%v) but had already written %d bytes that are not a complete header; list %s", p.RandFail-1, err, len(d.Data), skeleton)
			}
			c.Stats.Inc("probe.randfault_after_header")
			return nil
		}
		c.Stats.Inc("probe.randfault_refused_nothing_written")
		return nil
	}
	if err != nil {
		if expectOK && !ambiguous {
			return core.Fail("C11.refused_compatible", "Encrypt refused a list whose label sets are all equal and where no wrap failed: %v; list %s", err, skeleton)
		}
		if anyFail {
			c.Stats.Inc("probe.refused_wrap_failure")
		} else {
			c.Stats.Inc("probe.refused_labels")
		}
		if d.Calls != 0 {
			return core.Fail("C11.wrote_before_refusal", "Encrypt refused the list (%v) but had already issued %d Write call(s) (%d bytes) to the destination; list %s", err, d.Calls, len(d.Data), skeleton)
		}
		if w != nil {
			return core.Fail("C11.writer_with_error", "Encrypt returned an error and a writer")
		}
		// a refusal must leave nothing behind: the next encryption in the process, to one ordinary recipient, works
		d2 := seam.NewDisk(nil, nil)
		restore2 := seam.NewTape(p.Tape + 7).Install()
		w2, err2 := age.Encrypt(d2, world.Recipient(world.Key{T: "x", K: 0}))
		if err2 == nil {
			w2.Write([]byte("after the refusal"))
			err2 = w2.Close()
		}
		restore2()
		res2 := lib.Decrypt(seam.NewSource(d2.Data, seam.Delivery{Mode: "whole"}, nil, nil).Reader(), false, []age.Identity{world.Identity(world.Key{T: "x", K: 0})}, lib.ReadSched{Mode: "all"}, nil)
		if err2 != nil || !res2.Clean() || string(res2.Released) != "after the refusal" {
			return core.Fail("C11.poisoned_next", "after Encrypt refused the list %s, an encryption to one X25519 recipient gives %v / %s", skeleton, err2, res2.ErrText())
		}
		return nil
	}
	if !expectOK && !ambiguous {
		why := "label sets differ"
		if anyFail {
			why = "a recipient failed to wrap"
		}
		return core.Fail("C11.accepted_incompatible", "Encrypt accepted a list although %s: %s", why, skeleton)
	}
	c.Stats.Inc("probe.accepted")
	// on success the file decrypts for the real keys
	for i, lr := range p.Recips {
		if lr.Mute {
			continue
		}
		k := world.Key{T: "x", K: lr.XKey % world.NX25519}
		if lr.Native != nil {
			k = *lr.Native
		}
		res := lib.Decrypt(seam.NewSource(d.Data, seam.Delivery{Mode: "whole"}, nil, nil).Reader(), false, []age.Identity{world.Identity(k)}, lib.ReadSched{Mode: "all"}, nil)
		if !res.Clean() || !bytes.Equal(res.Released, P) {
			if randFired {
				return core.Fail("C11.wrap_failure_swallowed", "the CSPRNG failed once at draw %d, Encrypt reported success, and recipient #%d cannot decrypt the file (%s): a failed wrap was not a refusal; list %s", p.RandFail-1, i, res.ErrText(), skeleton)
			}
			return core.Fail("C11.accepted_but_unreadable", "accepted list, but recipient #%d cannot decrypt: %s", i, res.ErrText())
		}
	}
	return nil
}
