package engines

import (
	"bytes"
	"crypto/rand"
	"fmt"
	"io"
	"os"
	"path/filepath"
	"runtime"
	"strings"
	"sync"
	"time"

	"filippo.io/age"

	"verif/sim/core"
	"verif/sim/lib"
	"verif/sim/seam"
	"verif/sim/world"
)

// C20 — shared recipients and identities are safe under concurrency.

type C20Task struct {
	Op    string       `json:"op"` // "enc" | "dec"
	File  lib.FileSpec `json:"file"`
	Segs  []int        `json:"segs,omitempty"`
	IdKey int          `json:"id_key"`          // dec: which real key of the file opens it
	After string       `json:"after,omitempty"` // enc: what the caller does after Close: "" | "close" (a second Close, as defer + explicit Close give) | "close-write" (and a Write after that); legal, reports an error, must touch nobody else
}

type C20Plan struct {
	Mode    string    `json:"mode"` // "sched" (deterministic baton passing at the seams) | "sched-fine" (the same with a yield before every statement of the library, in an AST-rewritten scratch copy) | "race" (free-running under the race detector)
	Tasks   []C20Task `json:"tasks"`
	Sched   []int     `json:"sched,omitempty"`   // policy "random": index into the runnable set at each yield (after the list is used up, the lowest runnable task runs)
	Policy  string    `json:"policy,omitempty"`  // "" = random | "pct": tasks run in priority order and are pre-empted only at the listed change points
	Prio    []int     `json:"prio,omitempty"`    // pct: task ids, highest priority first
	Changes []int     `json:"changes,omitempty"` // pct: the k-th hot yield (seam call, or statement inside a method of a key object) demotes the running task to the lowest priority
	Common  bool      `json:"common,omitempty"`  // race stage: every goroutine also decrypts ONE common file (written before the start) with the shared identity; sched stages: task 1 opens the very same file as task 0
	Layout  bool      `json:"layout,omitempty"`  // every file is also addressed to ONE common X25519 key, whose stanza sits at a drawn position among 0..5 others: one shared identity sees headers of different lengths and its stanza at different places
	Ring    bool      `json:"ring,omitempty"`    // the decrypting tasks pass ONE shared identity slice (keyring...) holding all their identities
	// race mode
	Procs int    `json:"procs,omitempty"`
	Iters int    `json:"iters,omitempty"`
	GSeed uint64 `json:"gseed,omitempty"`
	// race mode, a few runs per batch: every goroutine encrypts to and decrypts with ONE passphrase recipient/identity
	// pair at a realistic work factor (tens of MiB and a fraction of a second per derivation), once
	HeavyWF int `json:"heavy_wf,omitempty"`
}

type C20 struct{}

// stmtHookSetter is non-nil only in the binary built with -tags astyield (see c20_ast_on.go).
var stmtHookSetter func(func(hot bool))

func (C20) ID() string { return "C20" }
func (C20) Title() string {
	return "caller tasks sharing key objects: seeded baton-passing scheduler at the seams + free-running stage under the race detector"
}
func (C20) NewPlan() interface{} { return &C20Plan{} }
func (C20) Runs(tier string) int {
	if tier == "thorough" {
		return 60000
	}
	return 3000
}

func (C20) Meta() core.Meta {
	return core.Meta{
		Level:       "exploration",
		Rule:        "sched case = 2..8 tasks (Encrypt or Decrypt, own plaintext/tape/destination/source; a third of the encrypting callers close their writer a second time, or also write after that, with a yield in between) sharing ONE recipient and ONE identity object per key (in a third of the cases the decrypting tasks also pass one shared identity slice, keyring..., which must come back unchanged); exactly one task runs at a time and every seam call (rand.Read before and after the draw, dst.Write, src.Read) is a yield at which the plan's PRNG-chosen schedule decides who continues; oracle: each task's output bytes / plaintext equal what the same task yields alone with fresh objects, and afterwards every decrypt task repeated alone with the SHARED objects still gives that result (nothing left behind). sched-fine case = the same with 2..4 tasks in a binary built from a scratch copy of the tree in which cmd/astyield inserted a yield before every statement of age.go, primitives.go, x25519.go, scrypt.go, agessh/agessh.go, internal/stream, internal/format and armor (718 points): statement-granular, still replayable schedules. race case = 2..32 free-running goroutines (GOMAXPROCS 2/4/16, start barrier, Gosched perturbation from the plan) doing Encrypt+Decrypt over the same shared objects in a -race build; any race report is a violation, results must round-trip. Non-trivial = at least one task switch between two tasks using the same key object; distinct = distinct task-switch sequences (sched) / distinct (goroutines, procs, seed) (race).",
		Assumptions: []string{"sched stage: code between two seam calls runs atomically; the sched-fine stage removes that limit for the library's own statements (not for the standard library or x/crypto below them)", "the sched-fine stage runs the library with inserted yield calls: the rewritten copy is checked to build, and its outputs are compared with runs of the same binary alone", "race stage is NOT schedule-controlled (it is the detector the property names); its replay re-runs the workload and is not exactly repeatable", "the race detector reports no false positives", "the scheduled stages are cooperative: library code that blocks on another task (a channel, a lock held across a yield) cannot be run by them and ends in a harness time-out (exit 2, never a VIOLATION); such code is left to the free-running stage"},
		Real:        []string{"filippo.io/age Encrypt/Decrypt", "X25519/scrypt/ssh-ed25519/ssh-rsa recipients and identities shared between tasks", "internal/stream"},
		Stub:        []string{"task scheduler (baton passing)", "per-task tape behind one routed crypto/rand.Reader", "per-task destination and source"},
		FaultKinds:  []string{},
		Probes:      []string{"probe.task_switches", "probe.switch_inside_wrap", "probe.shared_x25519", "probe.shared_scrypt", "probe.shared_ssh_ed25519", "probe.shared_ssh_rsa", "probe.race_runs", "probe.race_goroutines", "probe.race_detector_missing", "probe.statement_level_schedules", "probe.statement_yields", "probe.shared_identity_slice", "probe.common_key_at_varied_positions", "probe.pct_schedules", "probe.same_file_opened_by_all", "probe.race_heavy_passphrase_runs"},
	}
}

func (C20) Generate(r *core.RNG, tier string, idx uint64) interface{} {
	p := &C20Plan{}
	if idx%5 == 4 {
		p.Mode = "race"
		p.Procs = r.Pick(2, 4, 16)
		p.Iters = r.Range(2, 6)
		p.GSeed = r.U64() % 100000
		n := r.Pick(2, 3, 4, 8, 16, 32)
		for i := 0; i < n; i++ {
			t := C20Task{Op: "enc"}
			t.File.PSeed = r.U64() % 1000
			t.File.PLen = r.Pick(0, 1, 100, 5000, 65536, 70000)
			t.File.Recips = c20Recips(r)
			if r.Chance(1, 3) {
				t.After = "close"
			}
			p.Tasks = append(p.Tasks, t)
		}
		p.Ring = r.Chance(1, 3)
		if r.Chance(1, 4) {
			p.Layout = true
			for i := range p.Tasks {
				p.Tasks[i].File.Recips, p.Tasks[i].IdKey = layoutRecips(r)
				p.Tasks[i].File.PLen = r.Pick(0, 1, 100)
			}
		}
		p.Common = r.Chance(1, 3)
		if idx%750 == 4 {
			p.HeavyWF = r.Pick(14, 15, 15)
			p.Procs, p.Iters, p.Ring, p.Layout, p.Common = 16, 1, false, false, false
			p.Tasks = p.Tasks[:0]
			for i := 0; i < 24; i++ {
				t := C20Task{Op: "enc"}
				t.File.PSeed = uint64(i)
				t.File.PLen = 100
				t.File.Recips = []lib.Recip{{Key: &world.Key{T: "s", K: 0, WF: p.HeavyWF}}}
				p.Tasks = append(p.Tasks, t)
			}
		}
		return p
	}
	p.Mode = "sched"
	if idx%5 == 1 || idx%5 == 3 {
		p.Mode = "sched-fine"
	}
	n := r.Range(2, 8)
	if p.Mode == "sched-fine" {
		n = r.Range(2, 4)
	}
	for i := 0; i < n; i++ {
		t := C20Task{Op: []string{"enc", "enc", "dec"}[r.Intn(3)]}
		t.File.PSeed = r.U64() % 100000
		t.File.Tape = r.U64() % 100000
		t.File.PLen = r.Pick(0, 1, 100, 65536, 65537, 140000)
		t.File.Recips = c20Recips(r)
		t.Segs = lib.GenSegs(r, t.File.PLen)
		t.IdKey = r.Intn(8)
		if t.Op == "enc" && r.Chance(1, 3) {
			t.After = []string{"close", "close-write"}[r.Intn(2)]
		}
		p.Tasks = append(p.Tasks, t)
	}
	if r.Chance(1, 4) && n >= 2 {
		// two tasks open the very same file (same salt, same stanzas) with the shared identity
		p.Common = true
		p.Tasks[0].Op = "dec"
		p.Tasks[0].After = ""
		p.Tasks[1] = p.Tasks[0]
	}
	p.Ring = r.Chance(1, 3)
	if r.Bool() {
		// priority scheduling with a few change points (PCT): long uninterrupted runs, pre-emption only at drawn
		// places, which are seam calls or statements inside methods of key objects
		p.Policy = "pct"
		p.Prio = r.Perm(n)
		h := 10 * n
		if p.Mode == "sched-fine" {
			h = 40 * n
		}
		for d := r.Range(1, 4); d > 0; d-- {
			p.Changes = append(p.Changes, 1+r.Intn(h))
		}
	}
	if r.Chance(1, 4) {
		p.Layout = true
		for i := range p.Tasks {
			p.Tasks[i].File.Recips, p.Tasks[i].IdKey = layoutRecips(r)
			if r.Chance(3, 4) {
				p.Tasks[i].Op = "dec"
				p.Tasks[i].After = ""
			}
			if p.Tasks[i].File.PLen > 100 {
				p.Tasks[i].File.PLen = r.Pick(0, 1, 100)
				p.Tasks[i].Segs = nil
			}
		}
	}
	m := r.Range(5, 120)
	if p.Mode == "sched-fine" {
		m = r.Range(50, 1500)
		for i := range p.Tasks {
			if p.Tasks[i].File.PLen > 70000 {
				p.Tasks[i].File.PLen = 70000
				p.Tasks[i].Segs = lib.GenSegs(r, 70000)
			}
		}
	}
	for i := 0; i < m; i++ {
		p.Sched = append(p.Sched, r.Intn(8))
	}
	return p
}

// few distinct keys so that tasks really share objects
// layoutRecips: 0..5 stanzas for other keys and the common key x0 at a drawn position (returned too).
func layoutRecips(r *core.RNG) ([]lib.Recip, int) {
	n := r.Pick(0, 1, 1, 2, 3, 5)
	var out []lib.Recip
	for i := 0; i < n; i++ {
		switch r.Intn(4) {
		case 0, 1:
			out = append(out, lib.Recip{Key: &world.Key{T: "x", K: 1 + r.Intn(3)}})
		case 2:
			out = append(out, lib.Recip{Key: &world.Key{T: "e", K: r.Intn(2)}})
		default:
			out = append(out, lib.Recip{Key: &world.Key{T: "x", K: 4}})
		}
	}
	pos := r.Intn(n + 1)
	if r.Bool() {
		pos = n
	}
	out = append(out[:pos:pos], append([]lib.Recip{{Key: &world.Key{T: "x", K: 0}}}, out[pos:]...)...)
	return out, pos
}

func c20Recips(r *core.RNG) []lib.Recip {
	if r.Chance(1, 8) {
		return []lib.Recip{{Key: &world.Key{T: "s", K: 0, WF: 2}}}
	}
	n := r.Range(1, 3)
	var out []lib.Recip
	for i := 0; i < n; i++ {
		switch r.Intn(5) {
		case 0, 1:
			out = append(out, lib.Recip{Key: &world.Key{T: "x", K: r.Intn(2)}})
		case 2, 3:
			out = append(out, lib.Recip{Key: &world.Key{T: "e", K: r.Intn(2)}})
		default:
			out = append(out, lib.Recip{Key: &world.Key{T: "r", K: 0}})
		}
	}
	return out
}

func (C20) Shrinks(plan interface{}) []interface{} {
	p := plan.(*C20Plan)
	if p.HeavyWF > 0 {
		return nil // (fewer goroutines or a cheaper derivation is another scenario, not a smaller one)
	}
	var out []interface{}
	cp := func() *C20Plan {
		q := *p
		q.Tasks = append([]C20Task(nil), p.Tasks...)
		q.Sched = append([]int(nil), p.Sched...)
		return &q
	}
	if len(p.Tasks) > 2 {
		for i := range p.Tasks {
			q := cp()
			q.Tasks = append(q.Tasks[:i:i], q.Tasks[i+1:]...)
			out = append(out, q)
		}
	}
	if p.Ring {
		q := cp()
		q.Ring = false
		out = append(out, q)
	}
	for i := range p.Changes {
		q := cp()
		q.Changes = append(append([]int(nil), p.Changes[:i]...), p.Changes[i+1:]...)
		out = append(out, q)
	}
	if len(p.Sched) > 1 {
		q := cp()
		q.Sched = q.Sched[:len(q.Sched)/2]
		out = append(out, q)
		q = cp()
		q.Sched = q.Sched[1:]
		out = append(out, q)
	}
	for i, t := range p.Tasks {
		if t.File.PLen > 0 {
			q := cp()
			q.Tasks[i].File.PLen = 0
			q.Tasks[i].Segs = nil
			out = append(out, q)
		}
		if len(t.File.Recips) > 1 {
			q := cp()
			q.Tasks[i].File.Recips = t.File.Recips[:1]
			out = append(out, q)
		}
	}
	return out
}

// ---------- baton-passing scheduler ----------

type schedTask struct {
	id    int
	run   chan struct{}
	done  bool
	tape  *seam.Tape
	where string
}

type scheduler struct {
	tasks   []*schedTask
	cur     *schedTask
	yielded chan *schedTask
	choices []int
	ci      int
	trace   []int
	log     *core.Log
	// pct policy
	pct     bool
	prio    []int
	changes map[int]bool
	hot     int
}

// stmt is the statement-level hook: under the pct policy only hot statements can be change points and
// nothing else hands the baton over (long uninterrupted runs, few pre-emptions at chosen places).
func (s *scheduler) stmt(hot bool) {
	if !s.pct {
		s.yield("stmt")
		return
	}
	if hot {
		s.yield("stmt")
	}
}

func (s *scheduler) yield(what string) {
	t := s.cur
	t.where = what
	if s.pct {
		s.hot++
		if !s.changes[s.hot] {
			return // not a change point: the task keeps the baton
		}
		// demote the running task below all others
		for i, id := range s.prio {
			if id == t.id {
				s.prio = append(append(s.prio[:i:i], s.prio[i+1:]...), id)
				break
			}
		}
	}
	s.yielded <- t
	<-t.run
}

// router is the one crypto/rand.Reader; it serves the running task's tape.
type router struct{ s *scheduler }

func (r router) Read(p []byte) (int, error) {
	r.s.yield("rand.Read(before)")
	n, err := r.s.cur.tape.Read(p)
	r.s.yield("rand.Read(after)")
	return n, err
}

func (s *scheduler) loop() {
	for {
		var runnable []*schedTask
		for _, t := range s.tasks {
			if !t.done {
				runnable = append(runnable, t)
			}
		}
		if len(runnable) == 0 {
			return
		}
		c := 0
		if s.ci < len(s.choices) {
			c = s.choices[s.ci]
			s.ci++
		}
		t := runnable[c%len(runnable)]
		if s.pct {
			for _, id := range s.prio {
				if !s.tasks[id].done {
					t = s.tasks[id]
					break
				}
			}
		}
		s.trace = append(s.trace, t.id)
		s.cur = t
		t.run <- struct{}{}
		<-s.yielded
	}
}

type sharedObjs struct {
	mu  sync.Mutex
	rec map[string]age.Recipient
	ids map[string]age.Identity
}

func (so *sharedObjs) recipient(k world.Key) age.Recipient {
	so.mu.Lock()
	defer so.mu.Unlock()
	id := fmt.Sprintf("%s/%d", k, k.WF)
	if so.rec[id] == nil {
		so.rec[id] = world.Recipient(k)
	}
	return so.rec[id]
}

func (so *sharedObjs) identity(k world.Key) age.Identity {
	so.mu.Lock()
	defer so.mu.Unlock()
	id := fmt.Sprintf("%s/%d", k, k.WF)
	if so.ids[id] == nil {
		if k.T == "r" {
			// a private key given as plain numbers: nothing precomputed yet when the goroutines start
			so.ids[id] = world.BareRSAIdentity(k.K)
		} else {
			so.ids[id] = world.Identity(k)
		}
	}
	return so.ids[id]
}

func (so *sharedObjs) recipients(rs []lib.Recip) []age.Recipient {
	var out []age.Recipient
	for _, r := range rs {
		out = append(out, so.recipient(*r.Key))
	}
	return out
}

func (e C20) Execute(plan interface{}, c *core.Ctx) *core.Verdict {
	p := plan.(*C20Plan)
	if p.Mode == "race" && p.HeavyWF > 0 && RaceEnabled {
		// the heavy passphrase runs are about waiting, not about memory accesses: they run in the binary built
		// without the race detector (whose tenfold slowdown of a 32 MiB derivation would eat the deadline's margin)
		bin := os.Getenv("AGESIM_AST_BIN")
		if bin == "" {
			return core.Fail("harness", "heavy race runs need the binary built without -race (AGESIM_AST_BIN; use ./check C20 ...)")
		}
		v, err := core.RemoteExecute(bin, "C20", p, c)
		if err != nil {
			return core.Fail("harness", "%v", err)
		}
		return v
	}
	if p.Mode == "race" {
		return e.execRace(p, c)
	}
	fine := p.Mode == "sched-fine"
	if fine && stmtHookSetter == nil {
		bin := os.Getenv("AGESIM_AST_BIN")
		if bin == "" {
			return core.Fail("harness", "sched-fine stage needs the AST-instrumented binary (AGESIM_AST_BIN; use ./check C20 ...)")
		}
		v, err := core.RemoteExecute(bin, "C20", p, c)
		if err != nil {
			return core.Fail("harness", "%v", err)
		}
		return v
	}
	// alone results (fresh objects, sequential)
	type outcome struct {
		out []byte
		err string
	}
	alone := make([]outcome, len(p.Tasks))
	inputs := make([][]byte, len(p.Tasks))
	for i, t := range p.Tasks {
		if t.Op == "enc" {
			d := seam.NewDisk(nil, nil)
			res := lib.Encrypt(t.File, segsOr(t), d, seam.NewTape(t.File.Tape), nil)
			alone[i] = outcome{d.Data, fmt.Sprint(res.AnyErr())}
		} else {
			img, _ := lib.MustEncrypt(t.File)
			inputs[i] = img
			ks := t.File.Keys()
			k := ks[t.IdKey%len(ks)]
			res := lib.Decrypt(seam.NewSource(img, seam.Delivery{Mode: "whole"}, nil, nil).Reader(), t.File.Armor, []age.Identity{world.Identity(k)}, lib.ReadSched{Mode: "all"}, nil)
			alone[i] = outcome{res.Released, res.ErrText()}
		}
	}
	// together, under the plan's schedule, sharing objects (created up front: a task must never be parked
	// by the scheduler while it holds the lock of the object table)
	so := &sharedObjs{rec: map[string]age.Recipient{}, ids: map[string]age.Identity{}}
	for _, t := range p.Tasks {
		for _, k := range t.File.Keys() {
			so.recipient(k)
			so.identity(k)
		}
	}
	if p.Layout {
		c.Stats.Inc("probe.common_key_at_varied_positions")
	}
	// the shared keyring: every decrypting task's identity (one slot per distinct key) plus an outsider
	var ring, ringBefore []age.Identity
	if p.Ring {
		seen := map[string]bool{}
		for _, t := range p.Tasks {
			if t.Op != "dec" {
				continue
			}
			ks := t.File.Keys()
			k := ks[t.IdKey%len(ks)]
			if !seen[k.String()] {
				seen[k.String()] = true
				ring = append(ring, so.identity(k))
			}
		}
		ring = append(ring, so.identity(world.Key{T: "x", K: 7}))
		ringBefore = append([]age.Identity(nil), ring...)
		c.Stats.Inc("probe.shared_identity_slice")
	}
	idsFor := func(k world.Key) []age.Identity {
		if p.Ring {
			return ring // the same backing array for every task
		}
		return []age.Identity{so.identity(k)}
	}
	s := &scheduler{yielded: make(chan *schedTask), choices: p.Sched, log: c.Log}
	if p.Policy == "pct" {
		s.pct, s.changes = true, map[int]bool{}
		for _, k := range p.Changes {
			s.changes[k] = true
		}
		seen := map[int]bool{}
		for _, id := range p.Prio {
			if id >= 0 && id < len(p.Tasks) && !seen[id] {
				seen[id] = true
				s.prio = append(s.prio, id)
			}
		}
		for id := range p.Tasks {
			if !seen[id] {
				s.prio = append(s.prio, id)
			}
		}
		c.Stats.Inc("probe.pct_schedules")
	}
	together := make([]outcome, len(p.Tasks))
	old := rand.Reader
	rand.Reader = router{s}
	defer func() { rand.Reader = old }()
	for i := range p.Tasks {
		st := &schedTask{id: i, run: make(chan struct{}), tape: seam.NewTape(p.Tasks[i].File.Tape)}
		s.tasks = append(s.tasks, st)
	}
	for i := range p.Tasks {
		i := i
		t := p.Tasks[i]
		st := s.tasks[i]
		go func() {
			<-st.run
			defer func() {
				if r := recover(); r != nil {
					together[i] = outcome{nil, fmt.Sprintf("panic: %v", r)}
				}
				st.done = true
				s.yielded <- st
			}()
			y := func(what string) { s.yield(what) }
			if t.Op == "enc" {
				d := seam.NewDisk(nil, nil)
				d.Yield = y
				// the tape is reached through the router; lib.Encrypt would install its own reader, so drive the API here
				w, err := age.Encrypt(d, so.recipients(t.File.Recips)...)
				anyErr := err != nil
				if err == nil {
					P := t.File.Plain()
					off := 0
					for _, sg := range segsOr(t) {
						if sg < 0 {
							n, err := io.Copy(w, &lib.PlainReader{Data: P[off:], Max: -sg})
							if err != nil {
								anyErr = true
							}
							off += int(n)
							break
						}
						if off+sg > len(P) {
							sg = len(P) - off
						}
						if _, err := w.Write(P[off : off+sg]); err != nil {
							anyErr = true
							break
						}
						off += sg
					}
					if off < len(P) {
						if _, err := w.Write(P[off:]); err != nil {
							anyErr = true
						}
					}
					if err := w.Close(); err != nil {
						anyErr = true
					}
					if t.After != "" {
						y("caller: between Close and the deferred Close")
						w.Close()
						if t.After == "close-write" {
							y("caller: after the second Close")
							w.Write([]byte("late"))
						}
					}
				}
				together[i] = outcome{d.Data, fmt.Sprint(anyErr)}
			} else {
				src := seam.NewSource(inputs[i], seam.Delivery{Mode: "pieces", MaxPc: 30000, Seed: uint64(i)}, nil, nil)
				src.Yield = y
				ks := t.File.Keys()
				k := ks[t.IdKey%len(ks)]
				res := lib.Decrypt(src.Reader(), t.File.Armor, idsFor(k), lib.ReadSched{Mode: "all"}, nil)
				together[i] = outcome{res.Released, res.ErrText()}
			}
		}()
	}
	if fine {
		stmtHookSetter(s.stmt)
	}
	s.loop()
	if fine {
		stmtHookSetter(nil)
		c.Stats.Inc("probe.statement_level_schedules")
		c.Stats.Add("probe.statement_yields", int64(len(s.trace)))
	}
	switches, shared := 0, 0
	for i := 1; i < len(s.trace); i++ {
		if s.trace[i] != s.trace[i-1] {
			switches++
		}
	}
	// do two tasks share a key object?
	seen := map[string]int{}
	for _, t := range p.Tasks {
		for _, k := range t.File.Keys() {
			seen[k.String()]++
			c.Stats.Inc(map[string]string{"x": "probe.shared_x25519", "s": "probe.shared_scrypt", "e": "probe.shared_ssh_ed25519", "r": "probe.shared_ssh_rsa"}[k.T])
		}
	}
	for _, n := range seen {
		if n > 1 {
			shared++
		}
	}
	c.Stats.Add("probe.task_switches", int64(switches))
	for _, st := range s.tasks {
		_ = st
	}
	c.Log.Add("schedule trace: %v", s.trace)
	if s.pct {
		c.Stats.SetMax("max_hot_yields_in_a_pct_run", int64(s.hot))
	}
	c.Stats.Eval(fmt.Sprintf("%s|%v", p.Mode, s.trace), switches > 0 && shared > 0)
	// aftermath: the shared objects, used once more one after the other, must still behave like fresh ones
	// (state left behind by overlapping calls, e.g. a torn cache entry, shows here)
	for i, t := range p.Tasks {
		if t.Op != "dec" {
			continue
		}
		ks := t.File.Keys()
		k := ks[t.IdKey%len(ks)]
		res := lib.Decrypt(seam.NewSource(inputs[i], seam.Delivery{Mode: "whole"}, nil, nil).Reader(), t.File.Armor, []age.Identity{so.identity(k)}, lib.ReadSched{Mode: "all"}, nil)
		if res.ErrText() != alone[i].err || !bytes.Equal(res.Released, alone[i].out) {
			return core.Fail("C20.state_left_behind", "after the concurrent phase, task %d's file decrypted once more with the shared %s identity gives %d bytes/%s, alone it gives %d bytes/%s: overlapping calls left state behind in the shared object", i, k, len(res.Released), res.ErrText(), len(alone[i].out), alone[i].err)
		}
	}
	for j := range ring {
		if ring[j] != ringBefore[j] {
			return core.Fail("C20.caller_slice_modified", "the identity slice the tasks shared (keyring...) was changed by Decrypt: slot %d holds another identity than before (a concurrent caller reading it sees the intermediate states)", j)
		}
	}
	for i := range p.Tasks {
		if together[i].err != alone[i].err || !bytes.Equal(together[i].out, alone[i].out) {
			return core.Fail("C20.result_differs", "task %d (%s %s) run concurrently with %d others sharing key objects (task order %v) gives a different result than alone: %d bytes/%s vs %d bytes/%s, first difference at byte %d",
				i, p.Tasks[i].Op, p.Tasks[i].File.Skeleton(), len(p.Tasks)-1, clipInts(s.trace), len(together[i].out), together[i].err, len(alone[i].out), alone[i].err, firstDiff(together[i].out, alone[i].out))
		}
	}
	return nil
}

func clipInts(xs []int) []int {
	if len(xs) > 40 {
		return xs[:40]
	}
	return xs
}

func segsOr(t C20Task) []int {
	if len(t.Segs) == 0 {
		return []int{t.File.PLen}
	}
	return t.Segs
}

// ---------- race stage ----------

func raceLogSize() int64 {
	base := os.Getenv("AGESIM_RACE_LOG")
	if base == "" {
		return -1
	}
	ms, _ := filepath.Glob(base + ".*")
	var n int64
	for _, m := range ms {
		if fi, err := os.Stat(m); err == nil {
			n += fi.Size()
		}
	}
	return n
}

func raceLogTail() string {
	base := os.Getenv("AGESIM_RACE_LOG")
	ms, _ := filepath.Glob(base + ".*")
	var sb strings.Builder
	for _, m := range ms {
		b, _ := os.ReadFile(m)
		sb.Write(b)
	}
	s := sb.String()
	if len(s) > 3000 {
		s = s[:3000]
	}
	return s
}

func (e C20) execRace(p *C20Plan, c *core.Ctx) *core.Verdict {
	// the race stage is free-running: a replay re-runs the workload up to 20 times
	attempts := 1
	if c.Tier == "replay" || c.Tier == "shrink" {
		attempts = 20
	}
	var v *core.Verdict
	for i := 0; i < attempts && v == nil; i++ {
		v = e.execRaceOnce(p, c)
	}
	return v
}

func (e C20) execRaceOnce(p *C20Plan, c *core.Ctx) *core.Verdict {
	if p.HeavyWF > 0 && !RaceEnabled {
		// (no race log to look at in this binary: results and termination only)
	} else if !RaceEnabled || raceLogSize() < 0 {
		c.Stats.Inc("probe.race_detector_missing")
		return core.Fail("harness", "race stage needs the -race build and AGESIM_RACE_LOG (use ./check C20 ...)")
	}
	before := raceLogSize()
	prev := runtime.GOMAXPROCS(p.Procs)
	defer runtime.GOMAXPROCS(prev)
	so := &sharedObjs{rec: map[string]age.Recipient{}, ids: map[string]age.Identity{}}
	// create all shared objects up front (creation is not what is under test)
	for _, t := range p.Tasks {
		for _, k := range t.File.Keys() {
			so.recipient(k)
			so.identity(k)
		}
	}
	var ring, ringBefore []age.Identity
	if p.Ring {
		seen := map[string]bool{}
		for _, t := range p.Tasks {
			for _, k := range t.File.Keys() {
				if !seen[k.String()] {
					seen[k.String()] = true
					ring = append(ring, so.identity(k))
				}
			}
		}
		ring = append(ring, so.identity(world.Key{T: "x", K: 7}))
		ringBefore = append([]age.Identity(nil), ring...)
		c.Stats.Inc("probe.shared_identity_slice")
	}
	// the common file: task 0's recipients and plaintext, written once before the goroutines start
	var commonFile []byte
	var commonKey world.Key
	if p.Common {
		t0 := p.Tasks[0]
		var cb bytes.Buffer
		w, err := age.Encrypt(&cb, so.recipients(t0.File.Recips)...)
		if err != nil {
			return core.Fail("harness", "common file: %v", err)
		}
		w.Write(t0.File.Plain())
		w.Close()
		commonFile = cb.Bytes()
		ks := t0.File.Keys()
		commonKey = ks[t0.IdKey%len(ks)]
		c.Stats.Inc("probe.same_file_opened_by_all")
	}
	var wg sync.WaitGroup
	start := make(chan struct{})
	errs := make([]string, len(p.Tasks))
	lastFile := make([][]byte, len(p.Tasks))
	lastKey := make([]world.Key, len(p.Tasks))
	for i := range p.Tasks {
		i := i
		t := p.Tasks[i]
		wg.Add(1)
		go func() {
			defer wg.Done()
			defer func() {
				if r := recover(); r != nil {
					errs[i] = fmt.Sprintf("panic: %v", r)
				}
			}()
			g := core.NewRNG(p.GSeed + uint64(i)*7919)
			P := t.File.Plain()
			<-start
			for it := 0; it < p.Iters; it++ {
				if commonFile != nil {
					r, err := age.Decrypt(bytes.NewReader(commonFile), so.identity(commonKey))
					if err != nil {
						errs[i] = "Decrypt of the common file: " + err.Error()
						return
					}
					if got, err := io.ReadAll(r); err != nil || !bytes.Equal(got, p.Tasks[0].File.Plain()) {
						errs[i] = fmt.Sprintf("common file: %v (%d bytes)", err, len(got))
						return
					}
				}
				var buf bytes.Buffer
				w, err := age.Encrypt(&buf, so.recipients(t.File.Recips)...)
				if err != nil {
					errs[i] = "Encrypt: " + err.Error()
					return
				}
				if g.Chance(1, 2) {
					runtime.Gosched()
				}
				w.Write(P)
				if err := w.Close(); err != nil {
					errs[i] = "Close: " + err.Error()
					return
				}
				if t.After != "" {
					runtime.Gosched()
					w.Close()
				}
				ks := t.File.Keys()
				k := ks[g.Intn(len(ks))]
				if p.Layout {
					k = ks[t.IdKey%len(ks)] // the common key
				}
				if g.Chance(1, 2) {
					runtime.Gosched()
				}
				lastFile[i] = append([]byte(nil), buf.Bytes()...)
				lastKey[i] = k
				ids := []age.Identity{so.identity(k)}
				if p.Ring {
					ids = ring
				}
				r, err := age.Decrypt(&buf, ids...)
				if err != nil {
					errs[i] = "Decrypt: " + err.Error()
					return
				}
				got, err := io.ReadAll(r)
				if err != nil || !bytes.Equal(got, P) {
					errs[i] = fmt.Sprintf("round trip: %v (%d bytes of %d)", err, len(got), len(P))
					return
				}
			}
		}()
	}
	// every operation alone takes milliseconds (a fraction of a second per passphrase derivation in the heavy runs,
	// measured here on this machine, now): goroutines that have not finished after 60 times one operation (at least
	// 45 s) are not slow, they wait for each other. On a machine too slow for that to fit the budget of a run the
	// timeout is harness trouble, not a verdict.
	limit, judge := 90*time.Second, true
	if p.HeavyWF > 0 {
		t0 := time.Now()
		k := world.Key{T: "s", K: 1, WF: p.HeavyWF}
		var one bytes.Buffer
		w, err := age.Encrypt(&one, world.Recipient(k))
		if err != nil {
			return core.Fail("harness", "heavy run, operation alone: %v", err)
		}
		w.Write([]byte("alone"))
		w.Close()
		if r, err := age.Decrypt(&one, world.Identity(k)); err != nil {
			return core.Fail("harness", "heavy run, operation alone: %v", err)
		} else {
			io.ReadAll(r)
		}
		t1 := time.Since(t0)
		limit = 60 * t1
		if limit < 45*time.Second {
			limit = 45 * time.Second
		}
		if limit > 100*time.Second {
			limit, judge = 100*time.Second, false
		}
	}
	close(start)
	finished := make(chan struct{})
	go func() { wg.Wait(); close(finished) }()
	select {
	case <-finished:
	case <-time.After(limit):
		if !judge {
			return core.Fail("harness", "heavy run on an overloaded machine: not finished after %v, one operation alone took more than 1.6 s", limit)
		}
		return core.Fail("C20.hang", "%d goroutines sharing key objects (GOMAXPROCS=%d, %d iteration(s) each, passphrase work factor %d) have not finished after %v (60 times what one such operation took alone just before, at least 45 s): they wait for each other", len(p.Tasks), p.Procs, p.Iters, p.HeavyWF, limit.Round(time.Second))
	}
	if p.HeavyWF > 0 {
		c.Stats.Inc("probe.race_heavy_passphrase_runs")
		c.Log.Add("heavy passphrase run: wf=%d, %d goroutines", p.HeavyWF, len(p.Tasks))
	}
	c.Stats.Inc("probe.race_runs")
	c.Stats.Add("probe.race_goroutines", int64(len(p.Tasks)))
	c.Stats.Eval(fmt.Sprintf("race|%d|%d|%d|%d", len(p.Tasks), p.Procs, p.Iters, p.GSeed), true)
	c.Log.Add("race stage: %d goroutines, GOMAXPROCS=%d, %d iterations", len(p.Tasks), p.Procs, p.Iters)
	for i, e := range errs {
		if e != "" {
			return core.Fail("C20.concurrent_result", "goroutine %d of %d sharing key objects: %s", i, len(p.Tasks), e)
		}
	}
	for j := range ring {
		if ring[j] != ringBefore[j] {
			return core.Fail("C20.caller_slice_modified", "the identity slice the goroutines shared (keyring...) was changed by Decrypt: slot %d holds another identity than before", j)
		}
	}
	// aftermath, sequentially: every file of the concurrent phase once more with the shared identities
	for round := 0; round < 2; round++ {
		for i, f := range lastFile {
			if f == nil {
				continue
			}
			r, err := age.Decrypt(bytes.NewReader(f), so.identity(lastKey[i]))
			if err != nil {
				return core.Fail("C20.state_left_behind", "after the concurrent phase, the file of goroutine %d decrypted alone with the shared %s identity fails: %v (overlapping calls left state behind)", i, lastKey[i], err)
			}
			got, err := io.ReadAll(r)
			if err != nil || !bytes.Equal(got, p.Tasks[i].File.Plain()) {
				return core.Fail("C20.state_left_behind", "after the concurrent phase, the file of goroutine %d decrypts differently with the shared identity: %v", i, err)
			}
		}
	}
	if after := raceLogSize(); RaceEnabled && after > before {
		return core.Fail("C20.data_race", "the race detector reported a data race while %d goroutines shared recipient/identity objects: %s", len(p.Tasks), strings.ReplaceAll(raceLogTail(), "\n", " | "))
	}
	return nil
}
