package engines

import (
	"bytes"
	"fmt"
	"strings"

	"filippo.io/age"

	"verif/sim/core"
	"verif/sim/lib"
	"verif/sim/seam"
	"verif/sim/world"
)

// C01 — every listed recipient decrypts to the exact plaintext (the fault-free
// configuration of the simulation: progress half of every safety oracle).

type C01Plan struct {
	File     lib.FileSpec  `json:"file"`
	Segs     []int         `json:"segs"`
	Before   [][]world.Key `json:"before"` // per real recipient: non-matching identities tried first
	After    [][]world.Key `json:"after"`  // ... and listed after the matching one
	Delivery seam.Delivery `json:"delivery"`
	Reads    lib.ReadSched `json:"reads"`
	Warm     int           `json:"warm,omitempty"`     // the identity objects first decrypt this many OTHER files to the same recipients (long-lived objects)
	SameObj  bool          `json:"same_obj,omitempty"` // a key listed more than once is listed as the SAME recipient value each time (recipients []age.Recipient{r, x, r}); one identity value per key serves every identity list of the case
	Via      int           `json:"via,omitempty"`      // 0: keys through the constructors; 1..3: through the text parsers (key files with comments / CRLF / no final newline, authorized_keys lines, PEM)
}

type C01 struct{}

func (C01) ID() string { return "C01" }
func (C01) Title() string {
	return "fault-free world: mixed recipient lists, identity order, chunk-boundary lengths, armor"
}
func (C01) NewPlan() interface{} { return &C01Plan{} }
func (C01) Runs(tier string) int {
	if tier == "thorough" {
		return 1000000
	}
	return 40000
}

func (C01) Meta() core.Meta {
	return core.Meta{
		Level:       "exploration",
		Rule:        "a case = (recipient list of 1..6 from {X25519, ssh-ed25519, ssh-rsa, grease recipient emitting 0..2 unknown stanzas} in any order with duplicates, or one scrypt recipient; plaintext length in {0,1, k*64KiB-1..+1 for k<=4, random}; armor on/off; write segmentation; for every listed recipient an identity list with its identity at a random position among 0..5 non-matching identities of all four types; delivery and read schedules), no fault injected. Oracle: plaintext exact, clean and sticky EOF, Unwrap trace = identities up to and including the first that opens, none after. Non-trivial = more than one stanza or a non-matching identity in front or a chunk-boundary length; distinct = distinct (file skeleton, identity lists).",
		Assumptions: []string{"seeded sampling only: no fault or schedule appears in C01; it is the fault-free configuration against which the safety engines are meaningful"},
		Real:        []string{"filippo.io/age Encrypt/Decrypt", "X25519/scrypt/ssh-ed25519/ssh-rsa recipients and identities", "armor", "internal/stream", "internal/format", "age.ParseRecipients / ParseIdentities, agessh.ParseRecipient / ParseIdentity (a third of the runs)"},
		Stub:        []string{"destination recorder", "source with delivery schedule", "grease recipient", "logging identity wrapper", "crypto/rand.Reader (tape)"},
		FaultKinds:  []string{},
		Probes:      []string{"probe.mixed_types", "probe.duplicate_recipient", "probe.grease_stanza", "probe.scrypt", "probe.rsa", "probe.armor", "probe.len_on_chunk_boundary", "probe.nonmatching_before", "probe.nonmatching_after", "probe.multi_chunk", "probe.keys_through_text_parsers", "probe.identity_objects_reused_across_files", "probe.same_recipient_value_listed_twice"},
	}
}

func genOutsiders(r *core.RNG, listed []world.Key, n int) []world.Key {
	var out []world.Key
	for len(out) < n {
		var k world.Key
		switch r.Intn(4) {
		case 0:
			k = world.Key{T: "x", K: r.Intn(world.NX25519)}
		case 1:
			k = world.Key{T: "e", K: r.Intn(world.NEd)}
		case 2:
			k = world.Key{T: "r", K: r.Intn(world.NRSA)}
		default:
			k = world.Key{T: "s", K: r.Intn(world.NPass), WF: 8}
		}
		clash := false
		for _, l := range listed {
			if world.SameKey(l, k) {
				clash = true
			}
		}
		if !clash {
			out = append(out, k)
		}
	}
	return out
}

func (C01) Generate(r *core.RNG, tier string, idx uint64) interface{} {
	p := &C01Plan{}
	p.File.Tape = r.U64() % 1000000
	p.File.PSeed = r.U64() % 1000000
	p.File.Armor = r.Chance(1, 3)
	p.File.Recips = lib.GenRecips(r, 6, r.Chance(1, 3), true)
	p.File.PLen = lib.GenPLen(r, 4)
	p.Segs = lib.GenSegs(r, p.File.PLen)
	p.Delivery = seam.GenDelivery(r)
	p.Reads = lib.GenReadSched(r)
	keys := p.File.Keys()
	for range keys {
		p.Before = append(p.Before, genOutsiders(r, keys, r.Intn(4)))
		p.After = append(p.After, genOutsiders(r, keys, r.Intn(3)))
	}
	if r.Chance(1, 3) {
		p.Via = r.Range(1, 3)
	}
	if r.Chance(1, 4) {
		p.Warm = r.Range(1, 2)
	}
	p.SameObj = r.Chance(1, 2)
	return p
}

func (C01) Shrinks(plan interface{}) []interface{} {
	p := plan.(*C01Plan)
	var out []interface{}
	cp := func() *C01Plan {
		q := *p
		q.File.Recips = append([]lib.Recip(nil), p.File.Recips...)
		q.Segs = append([]int(nil), p.Segs...)
		q.Before = nil
		q.After = nil
		for i := range p.Before {
			q.Before = append(q.Before, append([]world.Key(nil), p.Before[i]...))
			q.After = append(q.After, append([]world.Key(nil), p.After[i]...))
		}
		return &q
	}
	if p.Via != 0 {
		q := cp()
		q.Via = 0
		out = append(out, q)
	}
	if p.SameObj {
		q := cp()
		q.SameObj = false
		out = append(out, q)
	}
	if p.Warm != 0 {
		q := cp()
		q.Warm = 0
		out = append(out, q)
	}
	// drop a recipient (and its identity lists)
	if len(p.File.Recips) > 1 {
		ki := 0
		for i, rc := range p.File.Recips {
			q := cp()
			q.File.Recips = append(q.File.Recips[:i:i], q.File.Recips[i+1:]...)
			if rc.Key != nil {
				q.Before = append(q.Before[:ki:ki], q.Before[ki+1:]...)
				q.After = append(q.After[:ki:ki], q.After[ki+1:]...)
				ki++
			}
			if len(q.File.Keys()) > 0 {
				out = append(out, q)
			}
		}
	}
	for i := range p.Before {
		if len(p.Before[i]) > 0 {
			q := cp()
			q.Before[i] = nil
			out = append(out, q)
		}
		if len(p.After[i]) > 0 {
			q := cp()
			q.After[i] = nil
			out = append(out, q)
		}
	}
	if p.File.Armor {
		q := cp()
		q.File.Armor = false
		out = append(out, q)
	}
	if p.File.PLen > 0 {
		for _, n := range []int{0, p.File.PLen % 65536, p.File.PLen / 2, p.File.PLen - 1} {
			q := cp()
			q.File.PLen = n
			q.Segs = []int{n}
			out = append(out, q)
		}
	}
	if len(p.Segs) > 1 {
		q := cp()
		q.Segs = []int{p.File.PLen}
		out = append(out, q)
	}
	if p.Delivery.Mode != "whole" || p.Delivery.Bufio != 0 || p.Delivery.EOFWith {
		q := cp()
		q.Delivery = seam.Delivery{Mode: "whole"}
		out = append(out, q)
	}
	if p.Reads.Mode != "all" {
		q := cp()
		q.Reads = lib.ReadSched{Mode: "all"}
		out = append(out, q)
	}
	return out
}

func (e C01) Execute(plan interface{}, c *core.Ctx) (verdict *core.Verdict) {
	p := plan.(*C01Plan)
	if p.Via > 0 {
		// world.*Via panics with a description when a text parser loses or rejects a key of a well-formed file
		defer func() {
			if r := recover(); r != nil {
				if s, ok := r.(string); ok && strings.HasPrefix(s, "age.Parse") {
					verdict = core.Fail("C01.key_file_parse", "%s", s)
					return
				}
				panic(r)
			}
		}()
	}
	d := seam.NewDisk(nil, nil)
	var res *lib.EncResult
	if p.Via > 0 || p.SameObj {
		// recipients and identities come out of the text parsers (key files, authorized_keys lines, PEM)
		var recips []age.Recipient
		objs := map[string]age.Recipient{}
		for _, r := range p.File.Recips {
			if r.Key != nil {
				id := fmt.Sprintf("%s/%d", r.Key.String(), r.Key.WF)
				if p.SameObj && objs[id] != nil {
					recips = append(recips, objs[id])
					c.Stats.Inc("probe.same_recipient_value_listed_twice")
					continue
				}
				objs[id] = world.RecipientVia(*r.Key, p.Via)
				recips = append(recips, objs[id])
			} else {
				recips = append(recips, lib.BuildRecipients([]lib.Recip{r})[0])
			}
		}
		if p.Via > 0 {
			c.Stats.Inc("probe.keys_through_text_parsers")
		}
		res = lib.EncryptWith(recips, p.File, p.Segs, d, seam.NewTape(p.File.Tape), nil)
	} else {
		res = lib.Encrypt(p.File, p.Segs, d, seam.NewTape(p.File.Tape), nil)
	}
	if res.AnyErr() {
		return core.Fail("C01.encrypt", "encrypting to %s failed: %+v", p.File.Skeleton(), res)
	}
	P := p.File.Plain()[:res.Accepted]
	keys := p.File.Keys()
	// probes
	types := map[string]bool{}
	dupl := false
	for i, k := range keys {
		types[k.T] = true
		for j := 0; j < i; j++ {
			if world.SameKey(keys[j], k) {
				dupl = true
			}
		}
		if k.T == "s" {
			c.Stats.Inc("probe.scrypt")
		}
		if k.T == "r" {
			c.Stats.Inc("probe.rsa")
		}
	}
	if len(types) > 1 {
		c.Stats.Inc("probe.mixed_types")
	}
	if dupl {
		c.Stats.Inc("probe.duplicate_recipient")
	}
	for _, rc := range p.File.Recips {
		if rc.Grease != nil && rc.Grease.N > 0 {
			c.Stats.Inc("probe.grease_stanza")
			break
		}
	}
	if p.File.Armor {
		c.Stats.Inc("probe.armor")
	}
	boundary := len(P) > 0 && (len(P)%65536 <= 1 || len(P)%65536 == 65535)
	if boundary {
		c.Stats.Inc("probe.len_on_chunk_boundary")
	}
	if len(P) > 65536 {
		c.Stats.Inc("probe.multi_chunk")
	}
	idObjs := map[string]age.Identity{}
	for i, k := range keys {
		var trace []string
		var ids []age.Identity
		var want []string
		add := func(kk world.Key, name string) {
			var inner age.Identity
			if p.SameObj {
				// one identity value per key for the whole case: it sits at several positions of several lists
				id := fmt.Sprintf("%s/%d", kk.String(), kk.WF)
				if idObjs[id] == nil {
					idObjs[id] = world.IdentityVia(kk, p.Via)
				}
				inner = idObjs[id]
			} else {
				inner = world.IdentityVia(kk, p.Via)
			}
			ids = append(ids, &world.LoggingIdentity{Inner: inner, Name: name, Trace: &trace})
		}
		var before, after []world.Key
		if i < len(p.Before) {
			before = p.Before[i]
		}
		if i < len(p.After) {
			after = p.After[i]
		}
		for j, b := range before {
			n := fmt.Sprintf("before%d:%s", j, b)
			add(b, n)
			want = append(want, n)
		}
		add(k, "match:"+k.String())
		want = append(want, "match:"+k.String())
		for j, a := range after {
			add(a, fmt.Sprintf("after%d:%s", j, a))
		}
		if len(before) > 0 {
			c.Stats.Inc("probe.nonmatching_before")
		}
		if len(after) > 0 {
			c.Stats.Inc("probe.nonmatching_after")
		}
		for wj := 0; wj < p.Warm; wj++ {
			ws := p.File
			ws.PSeed, ws.Tape, ws.PLen, ws.Armor = ws.PSeed+uint64(wj)+1, ws.Tape+uint64(wj)+1, 33, false
			wimg, _ := lib.MustEncrypt(ws)
			wr := lib.Decrypt(seam.NewSource(wimg, seam.Delivery{Mode: "whole"}, nil, nil).Reader(), false, ids, lib.ReadSched{Mode: "all"}, nil)
			if !wr.Clean() || !bytes.Equal(wr.Released, ws.Plain()) {
				return core.Fail("C01.decrypt_failed", "identity list of listed recipient #%d (%s), used for file %d of a sequence to the same recipients %s: %s", i, k, wj, p.File.Skeleton(), wr.ErrText())
			}
			trace = nil
			c.Stats.Inc("probe.identity_objects_reused_across_files")
		}
		src := seam.NewSource(d.Data, p.Delivery, nil, nil)
		dr := lib.Decrypt(src.Reader(), p.File.Armor, ids, p.Reads, nil)
		c.Log.Add("recipient %d (%s): released=%d %s trace=%v", i, k, len(dr.Released), dr.ErrText(), trace)
		nontrivial := len(p.File.Recips) > 1 || len(before) > 0 || boundary
		c.Stats.Eval(fmt.Sprintf("%s|%d|%v|%v|%s", p.File.Skeleton(), i, before, after, p.Delivery), nontrivial)
		if dr.BadRead != "" {
			return core.Fail("C01.badread", "%s", dr.BadRead)
		}
		if dr.DecryptErr != nil {
			return core.Fail("C01.decrypt_failed", "identity of listed recipient #%d (%s) at position %d of %d cannot open %s: %v", i, k, len(before), len(ids), p.File.Skeleton(), dr.DecryptErr)
		}
		if !dr.Clean() {
			return core.Fail("C01.read_error", "recipient #%d (%s): reading the plaintext of %s ended with %v after %d of %d bytes", i, k, p.File.Skeleton(), dr.Err, len(dr.Released), len(P))
		}
		if !bytes.Equal(dr.Released, P) {
			return core.Fail("C01.plaintext", "recipient #%d (%s): plaintext differs (%d bytes released, %d written) for %s", i, k, len(dr.Released), len(P), p.File.Skeleton())
		}
		if !dr.Sticky {
			return core.Fail("C01.eof_notsticky", "after the clean end further Reads do not return (0, EOF): %s", dr.StickyNote)
		}
		if strings.Join(trace, ",") != strings.Join(want, ",") {
			return core.Fail("C01.identity_order", "identities consulted %v, expected exactly %v (in order, none after the first that opens)", trace, want)
		}
	}
	return nil
}
