//go:build astyield

package engines

import "filippo.io/age/simyield"

// Built against a scratch copy of the tree rewritten by cmd/astyield: every
// statement of the library's functions calls simyield.Y() first.
func init() {
	stmtHookSetter = func(h func()) { simyield.Hook = h }
}
