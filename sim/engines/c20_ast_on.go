//go:build astyield

package engines

import "filippo.io/age/simyield"

// Built against a scratch copy of the tree rewritten by cmd/astyield: every
// statement of the library's functions calls simyield.Y() (or H() inside methods of key objects) first.
func init() {
	stmtHookSetter = func(h func(hot bool)) { simyield.Hook = h }
}
