package engines

import (
	"bytes"
	"fmt"

	"filippo.io/age"

	"verif/sim/core"
	"verif/sim/lib"
	"verif/sim/ref"
	"verif/sim/seam"
	"verif/sim/world"
)

// C02 — tampered, truncated or reordered payload is never accepted.

type Damage struct {
	Kind string `json:"kind"` // trunc flip insert delete extend drop dup swap move misdirect
	Off  int    `json:"off,omitempty"`
	Bit  int    `json:"bit,omitempty"`
	N    int    `json:"n,omitempty"`
	Fill string `json:"fill,omitempty"` // zeros random lastchunk sealedempty
	I    int    `json:"i,omitempty"`
	J    int    `json:"j,omitempty"`
}

// ChunkOp is one chunk of a byzantine (with-key) payload.
type ChunkOp struct {
	Src     int  `json:"src"`               // index of the plaintext chunk of P it carries; -1 = empty
	Cut     int  `json:"cut"`               // >0: only the first Cut bytes of that chunk
	Skip    int  `json:"skip,omitempty"`    // >0: without the first Skip bytes (second half of a split chunk)
	Ctr     int  `json:"ctr"`               // counter it is sealed under
	Final   bool `json:"final"`             // final flag it is sealed under
	Foreign bool `json:"foreign,omitempty"` // sealed under another stream key (a chunk of a sibling file)
}

type C02Plan struct {
	File     lib.FileSpec  `json:"file"`
	Sweep    string        `json:"sweep,omitempty"`   // "flips+truncs": exhaustive over the payload region of a small file; "armor-cuts": every truncation length of the armored text
	Align48  bool          `json:"align48,omitempty"` // armor-cuts: plaintext length adjusted so that the binary file is a multiple of 48 bytes
	Damage   *Damage       `json:"damage,omitempty"`
	Seq      []ChunkOp     `json:"seq,omitempty"`
	Prefix   int           `json:"prefix,omitempty"`   // with-key sequences: this many honest full chunks come first (counters of the sequence are offset by it)
	Rearmor  bool          `json:"rearmor,omitempty"`  // carry the damaged binary through canonical armor
	SrcTemp  bool          `json:"src_temp,omitempty"` // inserted/appended bytes arrive in one Read together with a transient error (once); the source then goes on
	Delivery seam.Delivery `json:"delivery"`
	Reads    lib.ReadSched `json:"reads"`
}

type C02 struct{}

func (C02) ID() string { return "C02" }
func (C02) Title() string {
	return "storage faults and writer crashes on the payload, byzantine re-chunking"
}
func (C02) NewPlan() interface{} { return &C02Plan{} }
func (C02) Runs(tier string) int {
	if tier == "thorough" {
		return 120000
	}
	return 6000
}

func (C02) Meta() core.Meta {
	return core.Meta{
		Level: "fault_enumeration",
		Rule:  "a case = (file, one storage fault or writer-crash point or with-key chunk sequence, delivery schedule, read schedule); every damaged image is read under the plan's schedule plus unbuffered data-with-EOF and byte-at-a-time. Sweep runs enumerate every bit flip, every truncation length, every deleted byte, an inserted byte at every offset and every extension by 1..18 bytes of the payload region (nonce and chunks) of a small file, and every extension by 1..40 bytes (zeros, random, copy of the last chunk, a sealed empty chunk) of files whose final chunk is full-size; sampled runs damage multi-chunk files near chunk boundaries (flip, insert, delete, extend, drop/dup/swap/move/misdirect a chunk write) or build a with-key sequence of up to 5 chunk variants (one run per batch puts such a tail behind 255..257 honest chunks, 16 MiB) (other counter, other final flag, short, empty, split in two, sealed under a foreign key). Non-trivial = image differs from the honest file; distinct = distinct (file skeleton, damage, delivery).",
		Assumptions: []string{
			"ChaCha20-Poly1305, HKDF and the reference STREAM model are the trusted base",
			"with-key sequences: accepted with a clean end => image is byte for byte the canonical encoding of the released plaintext (one chunking per plaintext); a (key, nonce) pair reused across different plaintexts is not a generated fault",
		},
		Real:       []string{"filippo.io/age Decrypt", "internal/stream Reader", "internal/format Parse", "armor Reader (rearmor runs)"},
		Stub:       []string{"ciphertext source (SimSource) and its delivery schedule", "storage image (damaged copy of what SimDisk recorded)", "crypto/rand.Reader (tape)", "byzantine writer (reference model with the file key)"},
		FaultKinds: []string{"fault.armored_text_cut_short", "fault.trunc", "fault.flip", "fault.insert", "fault.delete", "fault.extend", "fault.drop", "fault.dup", "fault.swap", "fault.move", "fault.misdirect", "fault.byzantine_seq", "fault.src_transient_error_with_the_foreign_bytes"},
		Probes:     []string{"probe.armored_file_ending_in_a_full_line", "probe.full_final_chunk", "probe.full_final_plus_trailing", "probe.error_from_Decrypt", "probe.error_after_release", "probe.byz_accepted_canonical", "probe.byz_rejected", "probe.trivial_same_image", "probe.empty_final_after_full", "probe.read_with_1MiB_buffer", "probe.byz_behind_255_to_257_chunks", "probe.drained_by_io_copy", "probe.honest_file_after_the_damaged_ones"},
	}
}

func (C02) Generate(r *core.RNG, tier string, idx uint64) interface{} {
	p := &C02Plan{}
	p.File.Tape = r.U64() % 100000
	p.File.PSeed = r.U64() % 100000
	p.Delivery = seam.GenDelivery(r)
	p.Reads = lib.GenReadSched(r)
	p.Rearmor = r.Chance(1, 6)
	p.SrcTemp = r.Chance(1, 3)
	switch {
	case idx%20 == 10:
		p.Sweep = "armor-cuts"
		p.File.Recips = []lib.Recip{{Key: &world.Key{T: []string{"x", "x", "e"}[r.Intn(3)], K: r.Intn(4)}}}
		p.File.PLen = r.Pick(0, 1, 40, 100, 300)
		p.Align48 = r.Chance(2, 3)
		p.Rearmor = false
	case idx%20 == 0:
		p.Sweep = "flips+truncs"
		p.File.Recips = []lib.Recip{{Key: &world.Key{T: "x", K: r.Intn(world.NX25519)}}}
		max := 64
		if tier == "thorough" {
			max = 256
		}
		p.File.PLen = r.Intn(max + 1)
		p.Rearmor = false
		if idx%60 == 0 {
			p.Sweep = "extensions"
			p.File.PLen = 65536 * r.Range(1, 2)
		}
	case idx%1500 == 44:
		// a with-key tail behind 255..257 honest chunks: the empty-final and counter rules at counters whose low byte is 0 or 255
		p.File.Recips = []lib.Recip{{Key: &world.Key{T: "x", K: r.Intn(world.NX25519)}}}
		p.File.PLen = 65536
		// (prefix length and tail are walked through in a fixed order, not drawn: a batch has only a few of these 16 MiB
		// cases and the first ones must be the ones that tell an 8-bit counter from an 88-bit one)
		walk := [][2]int{{256, 1}, {256, 0}, {256, 3}, {257, 1}, {255, 1}, {257, 2}, {255, 3}, {256, 2}, {257, 3}, {255, 0}}[(idx/1500)%10]
		p.Prefix = walk[0]
		switch walk[1] {
		case 0:
			p.Seq = []ChunkOp{{Src: -1, Ctr: 0, Final: true}} // empty final chunk right after the prefix
		case 1:
			p.Seq = []ChunkOp{{Src: 0, Ctr: 0, Final: true}}
		case 2:
			p.Seq = []ChunkOp{{Src: 0, Ctr: 0, Final: false}, {Src: -1, Ctr: 1, Final: true}}
		default:
			p.Seq = []ChunkOp{{Src: 0, Cut: 100, Ctr: 0 - p.Prefix, Final: true}} // counter wrapped back to 0
		}
		p.Rearmor = false
		p.Delivery = seam.Delivery{Mode: "whole"}
		p.Reads = lib.ReadSched{Mode: "all"}
	case idx%20 < 8:
		// byzantine with-key sequence
		p.File.Recips = []lib.Recip{{Key: &world.Key{T: "x", K: r.Intn(world.NX25519)}}}
		nch := r.Range(1, 3)
		p.File.PLen = nch*65536 - r.Pick(0, 0, 1, 100, 65535, 65536)
		if p.File.PLen < 0 {
			p.File.PLen = 0
		}
		n := r.Range(1, 5)
		pchunks := (p.File.PLen + 65535) / 65536
		for i := 0; i < n; i++ {
			op := ChunkOp{Src: i, Ctr: i, Final: i == n-1}
			if pchunks == 0 || r.Chance(1, 5) {
				op.Src = -1
			} else if r.Chance(1, 3) {
				op.Src = r.Intn(pchunks)
			} else if op.Src >= pchunks {
				op.Src = pchunks - 1
			}
			if r.Chance(1, 4) {
				op.Cut = r.Pick(1, 100, 32768, 65535)
			}
			if r.Chance(1, 4) {
				op.Ctr = r.Intn(n + 1)
			}
			if r.Chance(1, 4) {
				op.Final = !op.Final
			}
			if r.Chance(1, 12) {
				op.Foreign = true
			}
			if r.Chance(1, 8) && op.Src >= 0 && len(p.Seq) < 5 {
				// a 64 KiB chunk split in two consecutive chunks
				cut := r.Pick(1, 100, 32768, 65535)
				first := op
				first.Cut, first.Final = cut, false
				p.Seq = append(p.Seq, first)
				op.Skip, op.Cut = cut, 0
				op.Ctr++
			}
			p.Seq = append(p.Seq, op)
		}
	default:
		p.File.Recips = lib.GenRecips(r, 2, false, r.Chance(1, 10))
		p.File.PLen = lib.GenPLen(r, 3)
		d := &Damage{}
		nch := p.File.PLen/65536 + 1
		payloadLen := 16 + p.File.PLen + 16*nch
		near := func() int { // offset within payload region, biased to boundaries
			switch r.Intn(4) {
			case 0:
				return r.Intn(payloadLen)
			case 1:
				return payloadLen - 1 - r.Intn(min(payloadLen, 20))
			case 2:
				return r.Intn(min(payloadLen, 34))
			default:
				c := r.Intn(nch + 1)
				o := 16 + c*65552 + r.Range(-18, 2)
				if o < 0 {
					o = 0
				}
				if o >= payloadLen {
					o = payloadLen - 1
				}
				return o
			}
		}
		switch r.Intn(11) {
		case 0:
			d.Kind, d.Off = "trunc", near()
		case 1:
			d.Kind, d.Off, d.Bit = "flip", near(), r.Intn(8)
		case 2:
			d.Kind, d.Off, d.N = "insert", near(), r.Intn(256)
		case 3:
			d.Kind, d.Off = "delete", near()
		case 4, 5:
			d.Kind, d.N = "extend", r.Pick(1, 1, 2, 15, 16, 17, 65552)
			d.Fill = []string{"zeros", "random", "lastchunk", "sealedempty"}[r.Intn(4)]
		case 6:
			d.Kind, d.I = "drop", r.Intn(nch)
		case 7:
			d.Kind, d.I = "dup", r.Intn(nch)
		case 8:
			d.Kind, d.I, d.J = "swap", r.Intn(nch), r.Intn(nch)
		case 9:
			d.Kind, d.I, d.J = "move", r.Intn(nch), r.Intn(nch)
		default:
			d.Kind, d.I = "misdirect", r.Intn(nch)
		}
		p.Damage = d
	}
	return p
}

func (C02) Shrinks(plan interface{}) []interface{} {
	p := plan.(*C02Plan)
	var out []interface{}
	add := func(f func(q *C02Plan)) {
		q := *p
		q.File.Recips = append([]lib.Recip(nil), p.File.Recips...)
		q.Seq = append([]ChunkOp(nil), p.Seq...)
		if p.Damage != nil {
			d := *p.Damage
			q.Damage = &d
		}
		f(&q)
		out = append(out, &q)
	}
	if p.Rearmor {
		add(func(q *C02Plan) { q.Rearmor = false })
	}
	if p.SrcTemp {
		add(func(q *C02Plan) { q.SrcTemp = false })
	}
	if p.Delivery.Bufio != 0 {
		add(func(q *C02Plan) { q.Delivery.Bufio = 0 })
	}
	if p.Delivery.Mode != "whole" {
		add(func(q *C02Plan) { q.Delivery.Mode = "whole" })
	}
	if p.Reads.Mode != "all" {
		add(func(q *C02Plan) { q.Reads = lib.ReadSched{Mode: "all"} })
	}
	if len(p.Seq) > 1 {
		for i := range p.Seq {
			i := i
			add(func(q *C02Plan) { q.Seq = append(q.Seq[:i:i], q.Seq[i+1:]...) })
		}
	}
	for i, op := range p.Seq {
		i := i
		if op.Cut != 0 {
			add(func(q *C02Plan) { q.Seq[i].Cut = 0 })
		}
	}
	if len(p.File.Recips) > 1 {
		for i := range p.File.Recips {
			i := i
			add(func(q *C02Plan) { q.File.Recips = append(q.File.Recips[:i:i], q.File.Recips[i+1:]...) })
		}
	}
	if p.Seq == nil && p.File.PLen > 0 {
		add(func(q *C02Plan) { q.File.PLen = q.File.PLen % 65536 })
		add(func(q *C02Plan) { q.File.PLen = 0 })
		add(func(q *C02Plan) { q.File.PLen = 65536 })
		add(func(q *C02Plan) { q.File.PLen /= 2 })
	}
	if p.Damage != nil && p.Damage.N > 1 {
		add(func(q *C02Plan) { q.Damage.N = 1 })
	}
	return out
}

// chunkWrites splits the payload (after the nonce) in the writer's chunks.
func chunkWrites(payload []byte) [][]byte {
	var out [][]byte
	for len(payload) > ref.EncChunk {
		out = append(out, payload[:ref.EncChunk])
		payload = payload[ref.EncChunk:]
	}
	return append(out, payload)
}

func joinChunks(cs [][]byte) []byte {
	var out []byte
	for _, c := range cs {
		out = append(out, c...)
	}
	return out
}

// applyDamage returns the damaged binary image.
func applyDamage(d *Damage, F []byte, l *lib.Layout, spec lib.FileSpec) []byte {
	hdr := l.HeaderLen
	img := append([]byte(nil), F...)
	region := len(F) - hdr
	off := hdr + d.Off%maxInt(region, 1)
	chunks := chunkWrites(l.Payload)
	prefix := F[:hdr+16]
	rebuild := func(cs [][]byte) []byte { return append(append([]byte(nil), prefix...), joinChunks(cs)...) }
	n := len(chunks)
	switch d.Kind {
	case "trunc":
		return img[:off]
	case "flip":
		img[off] ^= 1 << uint(d.Bit%8)
		return img
	case "insert":
		return append(append(append([]byte(nil), F[:off]...), byte(d.N)), F[off:]...)
	case "delete":
		return append(append([]byte(nil), F[:off]...), F[off+1:]...)
	case "extend":
		var ext []byte
		switch d.Fill {
		case "zeros":
			ext = make([]byte, d.N)
		case "random":
			ext = core.Pattern(uint64(d.N)+77, d.N)
		case "lastchunk":
			last := chunks[n-1]
			for len(ext) < d.N {
				ext = append(ext, last...)
				if len(last) == 0 {
					break
				}
			}
			if len(ext) > d.N {
				ext = ext[:d.N]
			}
		case "sealedempty":
			ext = ref.SealChunk(l.StreamKey, uint64(n), true, nil)
		}
		return append(img, ext...)
	case "drop":
		i := d.I % n
		return rebuild(append(append([][]byte(nil), chunks[:i]...), chunks[i+1:]...))
	case "dup":
		i := d.I % n
		cs := append([][]byte(nil), chunks[:i+1]...)
		cs = append(cs, chunks[i])
		return rebuild(append(cs, chunks[i+1:]...))
	case "swap":
		i, j := d.I%n, d.J%n
		cs := append([][]byte(nil), chunks...)
		cs[i], cs[j] = cs[j], cs[i]
		return rebuild(cs)
	case "move":
		i, j := d.I%n, d.J%n
		cs := append([][]byte(nil), chunks...)
		c := cs[i]
		cs = append(cs[:i], cs[i+1:]...)
		if j > len(cs) {
			j = len(cs)
		}
		cs = append(cs[:j], append([][]byte{c}, cs[j:]...)...)
		return rebuild(cs)
	case "misdirect":
		// chunk i comes from a sibling file: same plaintext, other tape (other file key and nonce)
		sib := spec
		sib.Tape = spec.Tape + 1
		sib.Armor = false
		SF, _ := lib.MustEncrypt(sib)
		sl, err := lib.ParseLayout(SF, spec.Keys()[0])
		if err != nil {
			return img
		}
		sc := chunkWrites(sl.Payload)
		i := d.I % n
		cs := append([][]byte(nil), chunks...)
		cs[i] = sc[i]
		return rebuild(cs)
	}
	return img
}

func maxInt(a, b int) int {
	if a > b {
		return a
	}
	return b
}

// Execute runs the damaged cases and then lets the same identity object read the undamaged file once more: a
// rejected file must leave nothing behind that spoils the next one.
func (e C02) Execute(plan interface{}, c *core.Ctx) *core.Verdict {
	var after func() *core.Verdict
	if v := e.exec(plan, c, &after); v != nil {
		return v
	}
	if after != nil {
		return after()
	}
	return nil
}

func (e C02) exec(plan interface{}, c *core.Ctx, after *func() *core.Verdict) *core.Verdict {
	p := plan.(*C02Plan)
	if p.Sweep == "armor-cuts" {
		return e.execArmorCuts(p, c)
	}
	spec := p.File
	spec.Armor = false
	F, _ := lib.MustEncrypt(spec)
	key := spec.Keys()[0]
	l, err := lib.ParseLayout(F, key)
	if err != nil {
		return core.Fail("C02.baseline", "reference cannot parse the honest file: %v", err)
	}
	P := spec.Plain()
	ids := []age.Identity{world.Identity(key)}
	*after = func() *core.Verdict {
		res := lib.Decrypt(seam.NewSource(F, seam.Delivery{Mode: "whole"}, nil, nil).Reader(), false, ids, lib.ReadSched{Mode: "all"}, nil)
		c.Stats.Inc("probe.honest_file_after_the_damaged_ones")
		if !res.Clean() || !bytes.Equal(res.Released, P) {
			return core.Fail("C02.poisoned_next", "after the damaged images were rejected, the undamaged file read with the same identity object gives %d of %d bytes, %s", len(res.Released), len(P), res.ErrText())
		}
		return nil
	}
	deliveries := []seam.Delivery{p.Delivery, {Mode: "whole", EOFWith: true}, {Mode: "one"}}
	if p.Prefix > 0 {
		deliveries = deliveries[:2] // 16 MiB images: byte-at-a-time delivery is left out
	}
	if len(l.Payload) == ref.EncChunk*l.NChunks {
		c.Stats.Inc("probe.full_final_chunk")
	}

	tempAt := -1 // set by keyless() for insert/extend damage when the plan asks for it
	// check one image against an oracle under all deliveries
	try := func(img []byte, what string, sig string, oracle func(res *lib.DecResult, d seam.Delivery) *core.Verdict) *core.Verdict {
		src := img
		armored := false
		if p.Rearmor {
			src = []byte(ref.Armor(img))
			armored = true
		}
		for di, d := range deliveries {
			var sf *seam.SrcFault
			if di == 0 && tempAt >= 0 && !p.Rearmor && len(img) > len(F) {
				// the foreign bytes come in one Read that also reports a transient error
				sf = &seam.SrcFault{At: tempAt, K: len(img) - len(F), Mode: "once-data", Temp: true}
				d.Bufio = 0
				c.Stats.Inc("fault.src_transient_error_with_the_foreign_bytes")
			}
			s := seam.NewSource(src, d, sf, nil)
			c.Log.Add("case %s delivery=%s", what, d)
			reads := p.Reads
			if di == 2 {
				reads = lib.ReadSched{Mode: "copy"} // drained by io.Copy (WriteTo path if the reader offers one)
				c.Stats.Inc("probe.drained_by_io_copy")
			}
			if di == 1 && len(img) > 70000 {
				reads = lib.ReadSched{Mode: "big"} // multi-chunk images are also read with a buffer holding several chunks
				c.Stats.Inc("probe.read_with_1MiB_buffer")
			}
			res := lib.Decrypt(s.Reader(), armored, ids, reads, nil)
			c.Log.Add(" -> released=%d %s", len(res.Released), res.ErrText())
			c.Stats.Eval(sig+"|"+d.String(), !bytes.Equal(img, F))
			if res.BadRead != "" {
				return core.Fail("C02.badread", "%s", res.BadRead)
			}
			if v := oracle(res, d); v != nil {
				return v
			}
		}
		return nil
	}

	keyless := func(img []byte, d *Damage) *core.Verdict {
		what := fmt.Sprintf("%+v", *d)
		sig := fmt.Sprintf("%s|%+v", spec.Skeleton(), *d)
		narrow := func(dl seam.Delivery) interface{} {
			q := *p
			q.Sweep = ""
			dd := *d
			q.Damage = &dd
			q.Delivery = dl
			return &q
		}
		if bytes.Equal(img, F) {
			c.Stats.Inc("probe.trivial_same_image")
			return try(img, what, sig, func(res *lib.DecResult, dl seam.Delivery) *core.Verdict {
				if !res.Clean() || !bytes.Equal(res.Released, P) {
					v := core.Fail("C02.honest_rejected", "undamaged file not decrypted to P: %s", res.ErrText())
					v.Narrow = narrow(dl)
					return v
				}
				return nil
			})
		}
		c.Stats.Inc("fault." + d.Kind)
		tempAt = -1
		if p.SrcTemp && (d.Kind == "insert" || d.Kind == "extend") {
			tempAt = firstDiff(img, F)
			if tempAt < l.HeaderLen+16 {
				tempAt = -1 // inside what Decrypt itself reads: the header reader's buffer would separate data and error
			}
		}
		defer func() { tempAt = -1 }()
		if d.Kind == "extend" && len(l.Payload) == ref.EncChunk*l.NChunks {
			c.Stats.Inc("probe.full_final_plus_trailing")
			if d.Fill == "sealedempty" {
				c.Stats.Inc("probe.empty_final_after_full")
			}
		}
		return try(img, what, sig, func(res *lib.DecResult, dl seam.Delivery) *core.Verdict {
			fail := func(clause, f string, a ...interface{}) *core.Verdict {
				v := core.Fail(clause, f, a...)
				v.Narrow = narrow(dl)
				return v
			}
			if res.Clean() {
				return fail("C02.accepted", "payload damage %s on %s read under %s: decryption reached a clean end of stream (%d bytes released, |P|=%d)", what, spec.Skeleton(), dl, len(res.Released), len(P))
			}
			if !lib.IsPrefix(res.Released, P) {
				return fail("C02.wrong_bytes", "payload damage %s: released %d bytes that are not a prefix of P before the error (%s)", what, len(res.Released), res.ErrText())
			}
			if res.DecryptErr != nil {
				c.Stats.Inc("probe.error_from_Decrypt")
				if !res.ReaderNil {
					return fail("C02.reader_with_error", "Decrypt returned both an error and a reader")
				}
			} else {
				if len(res.Released) > 0 {
					c.Stats.Inc("probe.error_after_release")
				}
				if !res.Sticky {
					return fail("C02.notsticky", "reader that failed does not keep failing: %s", res.StickyNote)
				}
			}
			return nil
		})
	}

	switch {
	case p.Sweep == "extensions":
		// full-size final chunk: every amount of trailing data 1..40 and a whole extra chunk
		for n := 1; n <= 40; n++ {
			for _, fill := range []string{"zeros", "random", "lastchunk", "sealedempty"} {
				d := &Damage{Kind: "extend", N: n, Fill: fill}
				if v := keyless(applyDamage(d, F, l, spec), d); v != nil {
					return v
				}
			}
		}
		for _, n := range []int{65551, 65552, 65553} {
			d := &Damage{Kind: "extend", N: n, Fill: "lastchunk"}
			if v := keyless(applyDamage(d, F, l, spec), d); v != nil {
				return v
			}
		}
		return nil
	case p.Sweep != "":
		region := len(F) - l.HeaderLen
		for off := 0; off < region; off++ {
			d := &Damage{Kind: "trunc", Off: off}
			if v := keyless(applyDamage(d, F, l, spec), d); v != nil {
				return v
			}
			for bit := 0; bit < 8; bit++ {
				d := &Damage{Kind: "flip", Off: off, Bit: bit}
				if v := keyless(applyDamage(d, F, l, spec), d); v != nil {
					return v
				}
			}
			for _, d := range []*Damage{{Kind: "delete", Off: off}, {Kind: "insert", Off: off, N: 0}, {Kind: "insert", Off: off, N: int(F[l.HeaderLen+off])}} {
				if v := keyless(applyDamage(d, F, l, spec), d); v != nil {
					return v
				}
			}
		}
		for n := 1; n <= 18; n++ {
			for _, fill := range []string{"zeros", "lastchunk"} {
				d := &Damage{Kind: "extend", N: n, Fill: fill}
				if v := keyless(applyDamage(d, F, l, spec), d); v != nil {
					return v
				}
			}
		}
		return nil
	case p.Damage != nil:
		return keyless(applyDamage(p.Damage, F, l, spec), p.Damage)
	case p.Seq != nil:
		// byzantine writer: holds the key
		var pchunks [][]byte
		for off := 0; off < len(P); off += 65536 {
			end := off + 65536
			if end > len(P) {
				end = len(P)
			}
			pchunks = append(pchunks, P[off:end])
		}
		var S []byte
		var payload []byte
		foreign := false
		if p.Prefix > 0 {
			pre := core.Pattern(spec.PSeed+1, p.Prefix*65536)
			for i := 0; i < p.Prefix; i++ {
				payload = append(payload, ref.SealChunk(l.StreamKey, uint64(i), false, pre[i*65536:(i+1)*65536])...)
			}
			S = append(S, pre...)
			c.Stats.Inc("probe.byz_behind_255_to_257_chunks")
		}
		for _, op := range p.Seq {
			var pt []byte
			if op.Src >= 0 && op.Src < len(pchunks) {
				pt = pchunks[op.Src]
			}
			if op.Cut > 0 && op.Cut < len(pt) {
				pt = pt[:op.Cut]
			}
			if op.Skip > 0 && op.Skip < len(pt) {
				pt = pt[op.Skip:]
			}
			key := l.StreamKey
			if op.Foreign {
				key = ref.StreamKey(core.Pattern(4242, 16), l.Nonce)
				foreign = true
			}
			S = append(S, pt...)
			payload = append(payload, ref.SealChunk(key, uint64(op.Ctr+p.Prefix), op.Final, pt)...)
		}
		img := append(append([]byte(nil), F[:l.HeaderLen+16]...), payload...)
		c.Stats.Inc("fault.byzantine_seq")
		sig := fmt.Sprintf("%s|seq%+v", spec.Skeleton(), p.Seq)
		return try(img, fmt.Sprintf("seq %+v", p.Seq), sig, func(res *lib.DecResult, dl seam.Delivery) *core.Verdict {
			narrow := func() interface{} { q := *p; q.Delivery = dl; return &q }
			if res.Clean() {
				canon := append(append([]byte(nil), F[:l.HeaderLen+16]...), ref.SealPayload(l.StreamKey, res.Released)...)
				if !bytes.Equal(canon, img) {
					v := core.Fail("C02.second_chunking", "with-key chunk sequence %+v accepted with a clean end (%d bytes released) but the image is not the canonical encoding of those bytes: a second chunking of a plaintext was accepted", p.Seq, len(res.Released))
					v.Narrow = narrow()
					return v
				}
				c.Stats.Inc("probe.byz_accepted_canonical")
				return nil
			}
			c.Stats.Inc("probe.byz_rejected")
			if !lib.IsPrefix(res.Released, S) {
				v := core.Fail("C02.wrong_bytes", "with-key chunk sequence %+v: released %d bytes that are not a prefix of the sealed plaintexts", p.Seq, len(res.Released))
				v.Narrow = narrow()
				return v
			}
			// the reference model must agree that this image is not a canonical stream
			_ = foreign
			if _, err := ref.OpenPayload(l.StreamKey, payload); err == nil {
				v := core.Fail("C02.canonical_rejected", "with-key sequence %+v is a canonical STREAM per the reference model but the library rejected it: %s", p.Seq, res.ErrText())
				v.Narrow = narrow()
				return v
			}
			if res.DecryptErr == nil && !res.Sticky {
				v := core.Fail("C02.notsticky", "reader that failed does not keep failing: %s", res.StickyNote)
				v.Narrow = narrow()
				return v
			}
			return nil
		})
	}
	return core.Fail("harness", "empty plan")
}

// execArmorCuts: an armored file cut short at every length of its text (an encrypting process that died
// mid-write, seen through the armor). In two cases of three the plaintext length is chosen so that the binary
// file is a multiple of 48 bytes: the last body line is then a full line and a cut right behind it loses nothing
// but the END line. A clean end of stream is allowed only where the cut text still is the complete armor (the
// final line end missing).
func (e C02) execArmorCuts(p *C02Plan, c *core.Ctx) *core.Verdict {
	spec := p.File
	spec.Armor = false
	if p.Align48 {
		bin, _ := lib.MustEncrypt(spec)
		spec.PLen += (48 - len(bin)%48) % 48
		c.Stats.Inc("probe.armored_file_ending_in_a_full_line")
	}
	spec.Armor = true
	text, _ := lib.MustEncrypt(spec)
	P := spec.Plain()
	full := ref.NormaliseArmor(string(text))
	ids := []age.Identity{world.Identity(spec.Keys()[0])}
	for k := 0; k < len(text); k++ {
		cut := text[:k]
		for di, d := range []seam.Delivery{{Mode: "whole"}, {Mode: "pieces", MaxPc: 64, Seed: uint64(k), Bufio: 16}} {
			if di == 1 && k%7 != 0 {
				continue
			}
			res := lib.Decrypt(seam.NewSource(cut, d, nil, nil).Reader(), true, ids, lib.ReadSched{Mode: "all"}, nil)
			c.Stats.Eval(fmt.Sprintf("armorcut|%s|%d|%d", spec.Skeleton(), k, di), true)
			c.Stats.Inc("fault.armored_text_cut_short")
			if res.BadRead != "" {
				return core.Fail("C02.badread", "%s", res.BadRead)
			}
			if len(res.Released) > len(P) || !bytes.Equal(res.Released, P[:len(res.Released)]) {
				return core.Fail("C02.not_prefix", "armored file %s cut to %d of %d text bytes released %d bytes that are not a prefix of the plaintext", spec.Skeleton(), k, len(text), len(res.Released))
			}
			if res.Clean() && ref.NormaliseArmor(string(cut)) != full {
				v := core.Fail("C02.accepted", "armored file %s cut to %d of %d text bytes (ends in %q) was decrypted to a clean end of stream (%d bytes released); delivery %s", spec.Skeleton(), k, len(text), clipTail(cut), len(res.Released), d)
				return v
			}
		}
	}
	return nil
}

func clipTail(b []byte) string {
	if len(b) > 40 {
		b = b[len(b)-40:]
	}
	return string(b)
}
