//go:build !race

package engines

const RaceEnabled = false
