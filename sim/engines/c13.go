package engines

import (
	"bytes"
	"fmt"
	"io"

	"filippo.io/age"
	"filippo.io/age/armor"

	"verif/sim/core"
	"verif/sim/lib"
	"verif/sim/ref"
	"verif/sim/seam"
	"verif/sim/world"
)

// C13 — I/O failures surface; nothing is lost silently.

type C13Plan struct {
	Mode     string          `json:"mode"` // "dst", "src", "dearmor" (armor reader alone), "enarmor" (armor writer alone)
	File     lib.FileSpec    `json:"file"`
	Segs     []int           `json:"segs,omitempty"`
	Sweep    bool            `json:"sweep,omitempty"`  // enumerate every fault point of this file
	Coarse   bool            `json:"coarse,omitempty"` // sweep of a large file: every write call / every offset within 2 bytes of a write or chunk boundary
	Disk     *seam.DiskFault `json:"disk_fault,omitempty"`
	Src      *seam.SrcFault  `json:"src_fault,omitempty"`
	Delivery seam.Delivery   `json:"delivery"`
	Reads    lib.ReadSched   `json:"reads"`
}

type C13 struct{}

func (C13) ID() string           { return "C13" }
func (C13) Title() string        { return "I/O fault injection at the destination and source seams" }
func (C13) NewPlan() interface{} { return &C13Plan{} }
func (C13) Runs(tier string) int {
	if tier == "thorough" {
		return 60000
	}
	return 2400
}

func (C13) Meta() core.Meta {
	return core.Meta{
		Level: "fault_enumeration",
		Rule:  "a case = (file spec, write segmentation or delivery+read schedule, one injected fault); sweep runs enumerate every write-call index x {permanent,once} x {none,partial} and every byte offset x {permanent,once} of a small file (destination) or every byte offset 0..len x K in {0,1,rest} x {sticky,once-data,once-eof} (source); sampled runs place one fault in multi-chunk files near write/chunk boundaries; coarse sweeps of multi-chunk files enumerate every write call (destination) and every offset within 2 bytes of the header end, the nonce and each chunk boundary (source). Non-trivial = the fault fired inside an operation in flight; distinct = distinct (file skeleton, schedule, fault kind, fault position).",
		Assumptions: []string{
			"the destination honours io.Writer (never n<len with nil error); the source never returns (0,nil)",
			"reference model (sim/ref, validated on the 114 CCTV vectors) decides 'complete valid file for P'",
			"once-then-recovering sources are checked with a narrowly relaxed oracle: a clean end with exactly P is tolerated only for binary input when the error arrived together with the bytes that completed the header (format.Parse discards its private bufio and that error with it), the 16-byte nonce or a full-size chunk (io.ReadFull drops an error that comes with the bytes filling its buffer); the statement's quantifier names once-failures for the destination only. Any other swallowed source failure is a violation",
		},
		Real:       []string{"filippo.io/age Encrypt/Decrypt", "internal/stream", "internal/format", "armor", "x/crypto"},
		Stub:       []string{"destination writer (SimDisk)", "ciphertext source (SimSource)", "crypto/rand.Reader (tape)"},
		FaultKinds: []string{"fault.dst.call.perm", "fault.dst.call.once", "fault.dst.byte.perm", "fault.dst.byte.once", "fault.src.sticky", "fault.src.once-data", "fault.src.once-eof"},
		Probes:     []string{"probe.fault_in_header", "probe.fault_in_nonce", "probe.fault_in_payload", "probe.fault_at_eof", "probe.fault_in_armor_footer", "probe.error_from_Encrypt", "probe.error_from_Write", "probe.error_from_Close", "probe.error_from_armorClose", "probe.once_fault_swallowed_data_complete", "probe.src_error_from_Decrypt", "probe.src_error_from_Read", "probe.healthy_encryption_after_a_failed_one", "probe.healthy_decryption_after_failed_ones"},
	}
}

func (C13) Generate(r *core.RNG, tier string, idx uint64) interface{} {
	p := &C13Plan{}
	small := idx%3 == 0 // a third of the runs are exhaustive sweeps of small files
	switch r.Intn(10) {
	case 0:
		p.Mode = "dearmor"
	case 1:
		p.Mode = "enarmor"
	case 2, 3, 4, 5:
		p.Mode = "dst"
	default:
		p.Mode = "src"
	}
	p.File.Tape = r.U64() % 100000
	p.File.PSeed = r.U64() % 100000
	p.File.Armor = r.Chance(2, 5)
	if small {
		p.Sweep = true
		p.File.Recips = lib.GenRecips(r, 2, false, true)
		lib.ClampGrease(p.File.Recips, 96)
		max := 200
		if tier == "thorough" {
			max = 1024
		}
		p.File.PLen = r.Pick(0, 1, 15, 16, 17, 47, 48, 49, r.Intn(max))
	} else {
		p.File.Recips = lib.GenRecips(r, 3, r.Chance(1, 4), true)
		p.File.PLen = lib.GenPLen(r, 3)
	}
	if p.Mode == "dearmor" || p.Mode == "enarmor" {
		p.File.Armor = true
		p.File.Recips = nil
		if !small {
			p.File.PLen = r.Intn(3000)
		}
	}
	p.Segs = lib.GenSegs(r, p.File.PLen)
	p.Delivery = seam.GenDelivery(r)
	p.Reads = lib.GenReadSched(r)
	if !p.Sweep && r.Chance(1, 3) && p.Mode != "dearmor" && p.Mode != "enarmor" {
		p.Sweep, p.Coarse = true, true
		if p.File.PLen < 65536 {
			p.File.PLen = lib.GenPLen(r, 3)
			p.Segs = lib.GenSegs(r, p.File.PLen)
		}
	}
	if !p.Sweep {
		// one sampled fault; positions biased to boundaries
		total := estimateLen(p.File)
		pos := func() int {
			switch r.Intn(4) {
			case 0:
				return r.Intn(total + 1)
			case 1:
				return total - r.Intn(40)
			case 2:
				// near a chunk boundary of the binary layout
				c := r.Range(0, p.File.PLen/65536+1)
				return 250 + c*65552 + r.Range(-3, 3)
			default:
				return r.Intn(400)
			}
		}
		at := pos()
		if at < 0 {
			at = 0
		}
		if p.Mode == "dst" || p.Mode == "enarmor" {
			f := &seam.DiskFault{Call: -1, Byte: -1, Permanent: r.Bool()}
			if r.Bool() {
				f.Call = r.Intn(12)
				if !p.File.Armor && r.Chance(2, 3) {
					// aim at the chunk writes behind the header (about 4 + 8 writes per stanza, then the nonce)
					f.Call = 4 + 8*len(p.File.Recips) + r.Intn(p.File.PLen/65536+3)
				}
				f.Partial = r.Bool()
			} else {
				f.Byte = at
			}
			p.Disk = f
		} else {
			p.Src = &seam.SrcFault{At: at, K: r.Pick(0, 0, 1, 7, 1<<20), Mode: []string{"sticky", "sticky", "once-data", "once-eof"}[r.Intn(4)]}
		}
	}
	return p
}

func estimateLen(f lib.FileSpec) int {
	n := 200 + len(f.Recips)*120 + f.PLen + 16*(f.PLen/65536+1)
	if f.Armor {
		n = n*4/3 + n/48 + 80
	}
	return n
}

func (C13) Shrinks(plan interface{}) []interface{} {
	p := plan.(*C13Plan)
	var out []interface{}
	add := func(f func(q *C13Plan)) {
		q := *p
		q.Segs = append([]int(nil), p.Segs...)
		q.File.Recips = append([]lib.Recip(nil), p.File.Recips...)
		if p.Disk != nil {
			d := *p.Disk
			q.Disk = &d
		}
		if p.Src != nil {
			s := *p.Src
			q.Src = &s
		}
		f(&q)
		out = append(out, &q)
	}
	if p.File.Armor && p.Mode != "dearmor" && p.Mode != "enarmor" {
		add(func(q *C13Plan) { q.File.Armor = false })
	}
	if len(p.File.Recips) > 1 {
		for i := range p.File.Recips {
			i := i
			add(func(q *C13Plan) { q.File.Recips = append(q.File.Recips[:i:i], q.File.Recips[i+1:]...) })
		}
	}
	if p.File.PLen > 0 {
		add(func(q *C13Plan) { q.File.PLen = 0; q.Segs = nil })
		add(func(q *C13Plan) { q.File.PLen /= 2; q.Segs = []int{q.File.PLen} })
		add(func(q *C13Plan) { q.File.PLen--; q.Segs = []int{q.File.PLen} })
	}
	if len(p.Segs) > 1 {
		add(func(q *C13Plan) { q.Segs = []int{q.File.PLen} })
	}
	if p.Delivery.Mode != "whole" || p.Delivery.Bufio != 0 || p.Delivery.EOFWith {
		add(func(q *C13Plan) { q.Delivery = seam.Delivery{Mode: "whole"} })
		add(func(q *C13Plan) { q.Delivery.Bufio = 0 })
		add(func(q *C13Plan) { q.Delivery.Mode = "whole" })
	}
	if p.Reads.Mode != "all" {
		add(func(q *C13Plan) { q.Reads = lib.ReadSched{Mode: "all"} })
	}
	if p.Src != nil && p.Src.K > 1 {
		add(func(q *C13Plan) { q.Src.K = 0 })
		add(func(q *C13Plan) { q.Src.K = 1 })
	}
	if p.Disk != nil && p.Disk.Partial {
		add(func(q *C13Plan) { q.Disk.Partial = false })
	}
	return out
}

func (e C13) Execute(plan interface{}, c *core.Ctx) *core.Verdict {
	p := plan.(*C13Plan)
	switch p.Mode {
	case "dst":
		return e.execDst(p, c)
	case "enarmor":
		return e.execEnarmor(p, c)
	case "src", "dearmor":
		return e.execSrc(p, c)
	}
	return core.Fail("harness", "unknown mode %q", p.Mode)
}

// ----- destination faults -----

func (e C13) dstFaults(p *C13Plan, nCalls, nBytes int) []*seam.DiskFault {
	if !p.Sweep {
		return []*seam.DiskFault{p.Disk}
	}
	var fs []*seam.DiskFault
	for i := 0; i < nCalls; i++ {
		for _, perm := range []bool{true, false} {
			for _, part := range []bool{false, true} {
				fs = append(fs, &seam.DiskFault{Call: i, Byte: -1, Permanent: perm, Partial: part})
			}
		}
	}
	if p.Coarse {
		return fs // byte offsets of large files are sampled by other runs; here every write call
	}
	for b := 0; b < nBytes; b++ {
		for _, perm := range []bool{true, false} {
			fs = append(fs, &seam.DiskFault{Call: -1, Byte: b, Permanent: perm})
		}
	}
	return fs
}

func faultName(f *seam.DiskFault) string {
	k := "byte"
	if f.Call >= 0 {
		k = "call"
	}
	if f.Permanent {
		return "fault.dst." + k + ".perm"
	}
	return "fault.dst." + k + ".once"
}

func (e C13) execDst(p *C13Plan, c *core.Ctx) *core.Verdict {
	// fault-free baseline to know the write list
	base := seam.NewDisk(nil, nil)
	r0 := lib.Encrypt(p.File, p.Segs, base, seam.NewTape(p.File.Tape), nil)
	if r0.AnyErr() {
		return core.Fail("C13.baseline", "fault-free encryption failed: %+v", r0)
	}
	P := p.File.Plain()
	key := p.File.Keys()[0]
	if pt, _, err := lib.RefOpen(base.Data, p.File.Armor, key); err != nil || !bytes.Equal(pt, P) {
		return core.Fail("C13.baseline", "fault-free file not a valid file for P per reference: %v", err)
	}
	followUps := 0
	for _, f := range e.dstFaults(p, base.Calls, len(base.Data)) {
		if f == nil {
			continue
		}
		d := seam.NewDisk(f, c.Log)
		c.Log.Add("case dst fault=%+v", *f)
		res := lib.Encrypt(p.File, p.Segs, d, seam.NewTape(p.File.Tape), nil)
		fired := d.Fired > 0
		sig := fmt.Sprintf("dst|%s|segs%d|%+v", p.File.Skeleton(), len(p.Segs), *f)
		c.Stats.Eval(sig, fired)
		narrow := func() interface{} { q := *p; q.Sweep = false; ff := *f; q.Disk = &ff; return &q }
		if fired {
			c.Stats.Inc(faultName(f))
			off := d.Writes[len(d.Writes)-1].Off
			if l, err := layoutOf(base.Data, p.File, key); err == nil && !p.File.Armor {
				switch {
				case off < l.HeaderLen:
					c.Stats.Inc("probe.fault_in_header")
				case off < l.HeaderLen+16:
					c.Stats.Inc("probe.fault_in_nonce")
				default:
					c.Stats.Inc("probe.fault_in_payload")
				}
			} else if p.File.Armor && off >= len(base.Data)-34 {
				c.Stats.Inc("probe.fault_in_armor_footer")
			}
			switch {
			case res.EncryptErr != nil:
				c.Stats.Inc("probe.error_from_Encrypt")
			case res.CloseErr != nil:
				c.Stats.Inc("probe.error_from_Close")
			case res.ArmorErr != nil:
				c.Stats.Inc("probe.error_from_armorClose")
			case res.AnyErr():
				c.Stats.Inc("probe.error_from_Write")
			}
			if !res.AnyErr() {
				v := core.Fail("C13.dst.swallowed", "destination fault %+v fired (write #%d) but Encrypt, every Write, Close and armor Close reported success; file %s", *f, len(d.Writes)-1, p.File.Skeleton())
				v.Narrow = narrow()
				return v
			}
		}
		if !res.AnyErr() {
			pt, _, err := lib.RefOpen(d.Data, p.File.Armor, key)
			if err != nil || !bytes.Equal(pt, P) {
				v := core.Fail("C13.dst.incomplete", "all calls reported success but the accepted bytes are not a complete valid file for P (ref: %v); fault %+v", err, *f)
				v.Narrow = narrow()
				return v
			}
		}
		if res.StickyChecked && !res.StickyOK {
			v := core.Fail("C13.dst.notsticky", "stream writer recovered after a failure: %s; fault %+v", res.StickyDetail, *f)
			v.Narrow = narrow()
			return v
		}
		// the caller gives up on that destination and encrypts again to a healthy one: a failure must not
		// leave anything behind that spoils the next file (every 16th fault point in sweeps, always otherwise)
		followUps++
		if fired && (!p.Sweep || followUps%16 == 1) {
			d2 := seam.NewDisk(nil, nil)
			r2 := lib.Encrypt(p.File, p.Segs, d2, seam.NewTape(p.File.Tape+1), nil)
			c.Stats.Inc("probe.healthy_encryption_after_a_failed_one")
			pt, _, err := lib.RefOpen(d2.Data, p.File.Armor, key)
			if r2.AnyErr() || err != nil || !bytes.Equal(pt, P) {
				v := core.Fail("C13.dst.poisoned_next", "after an encryption that hit destination fault %+v, the next encryption to a healthy destination reported %v and its output is not a complete valid file (ref: %v)", *f, r2.AnyErr(), err)
				v.Narrow = narrow()
				return v
			}
		}
	}
	return nil
}

func layoutOf(img []byte, f lib.FileSpec, k world.Key) (*lib.Layout, error) {
	if f.Armor {
		d, err := ref.Dearmor(string(img))
		if err != nil {
			return nil, err
		}
		img = d
	}
	return lib.ParseLayout(img, k)
}

func min(a, b int) int {
	if a < b {
		return a
	}
	return b
}

// armor writer alone
func (e C13) execEnarmor(p *C13Plan, c *core.Ctx) *core.Verdict {
	data := p.File.Plain()
	run := func(d *seam.SimDisk) (anyErr bool) {
		w := armor.NewWriter(d)
		off := 0
		for _, s := range p.Segs {
			if s < 0 {
				n, err := io.Copy(w, &lib.PlainReader{Data: data[off:], Max: -s})
				if err != nil {
					return true
				}
				off += int(n)
				break
			}
			if off+s > len(data) {
				s = len(data) - off
			}
			if _, err := w.Write(data[off : off+s]); err != nil {
				return true
			}
			off += s
		}
		if off < len(data) {
			if _, err := w.Write(data[off:]); err != nil {
				return true
			}
		}
		return w.Close() != nil
	}
	base := seam.NewDisk(nil, nil)
	if run(base) {
		return core.Fail("C13.baseline", "fault-free armoring failed")
	}
	for _, f := range e.dstFaults(p, base.Calls, len(base.Data)) {
		if f == nil {
			continue
		}
		d := seam.NewDisk(f, c.Log)
		c.Log.Add("case enarmor fault=%+v", *f)
		anyErr := run(d)
		c.Stats.Eval(fmt.Sprintf("enarmor|len%d|segs%d|%+v", len(data), len(p.Segs), *f), d.Fired > 0)
		narrow := func() interface{} { q := *p; q.Sweep = false; ff := *f; q.Disk = &ff; return &q }
		if d.Fired > 0 {
			c.Stats.Inc(faultName(f))
			if !anyErr {
				v := core.Fail("C13.dst.swallowed", "armor writer: destination fault %+v fired but Write and Close all reported success (data len %d)", *f, len(data))
				v.Narrow = narrow()
				return v
			}
		}
		if !anyErr {
			got, err := ref.Dearmor(string(d.Data))
			if err != nil || !bytes.Equal(got, data) {
				// D2 (no Write before Close) is a C08 matter: only flag when some data was written
				if len(data) > 0 {
					v := core.Fail("C13.dst.incomplete", "armor writer: all calls succeeded but output is not the armor of the data (ref: %v); fault %+v", err, *f)
					v.Narrow = narrow()
					return v
				}
			}
		}
	}
	return nil
}

// ----- source faults -----

func (e C13) srcFaults(p *C13Plan, n int, hdrLen int) []*seam.SrcFault {
	if !p.Sweep {
		return []*seam.SrcFault{p.Src}
	}
	var fs []*seam.SrcFault
	near := func(at int) bool {
		if !p.Coarse {
			return true
		}
		if at < 3 || at > n-3 {
			return true
		}
		if p.File.Armor {
			return at%4099 == 0 // armored large files: a sparse grid
		}
		d := at - hdrLen
		if d >= -2 && d <= 18 {
			return true
		}
		m := (d - 16) % 65552
		return d > 16 && (m <= 2 || m >= 65550)
	}
	for at := 0; at <= n; at++ {
		if !near(at) {
			continue
		}
		for _, k := range []int{0, 1, 1 << 20} {
			if k > 0 && at == n {
				continue
			}
			for _, m := range []string{"sticky", "once-data", "once-eof"} {
				fs = append(fs, &seam.SrcFault{At: at, K: k, Mode: m})
			}
		}
	}
	return fs
}

func (e C13) execSrc(p *C13Plan, c *core.Ctx) *core.Verdict {
	var img, P []byte
	var ids []age.Identity
	raw := p.Mode == "dearmor"
	if raw {
		P = p.File.Plain()
		img = []byte(ref.Armor(P))
	} else {
		img, _ = lib.MustEncrypt(p.File)
		P = p.File.Plain()
		ids = []age.Identity{world.Identity(p.File.Keys()[0])}
	}
	hdrLen := 0
	if !raw && !p.File.Armor {
		if l, err := lib.ParseLayout(img, p.File.Keys()[0]); err == nil {
			hdrLen = l.HeaderLen
		}
	}
	for _, f := range e.srcFaults(p, len(img), hdrLen) {
		if f == nil {
			continue
		}
		if f.At > len(img) {
			f = &seam.SrcFault{At: len(img), K: f.K, Mode: f.Mode}
		}
		src := seam.NewSource(img, p.Delivery, f, c.Log)
		c.Log.Add("case src fault=%+v delivery=%s", *f, p.Delivery)
		var res *lib.DecResult
		if raw {
			res = &lib.DecResult{}
			lib.Drain(armor.NewReader(src.Reader()), p.Reads, res, nil)
		} else {
			res = lib.Decrypt(src.Reader(), p.File.Armor, ids, p.Reads, nil)
		}
		fired := src.Fired > 0
		c.Stats.Eval(fmt.Sprintf("src|%s|%s|%s|%+v", p.Mode, p.File.Skeleton(), p.Delivery, *f), fired)
		narrow := func() interface{} { q := *p; q.Sweep = false; ff := *f; q.Src = &ff; return &q }
		fail := func(clause, format string, a ...interface{}) *core.Verdict {
			v := core.Fail(clause, format, a...)
			v.Narrow = narrow()
			return v
		}
		if res.BadRead != "" {
			return fail("C13.src.badread", "%s", res.BadRead)
		}
		if !lib.IsPrefix(res.Released, P) {
			return fail("C13.src.notprefix", "released %d bytes that are not a prefix of the true plaintext (fault %+v, %s)", len(res.Released), *f, res.ErrText())
		}
		if !fired {
			// the operation ended before reaching the fault (e.g. fault beyond what is read): must be the plain outcome
			if !res.Clean() || !bytes.Equal(res.Released, P) {
				return fail("C13.src.nofault", "no fault fired yet the result is not P with a clean end: %s", res.ErrText())
			}
			continue
		}
		c.Stats.Inc("fault.src." + f.Mode)
		switch {
		case f.At == len(img):
			c.Stats.Inc("probe.fault_at_eof")
		case !raw && !p.File.Armor && f.At < hdrLen:
			c.Stats.Inc("probe.fault_in_header")
		case !raw && !p.File.Armor && f.At < hdrLen+16:
			c.Stats.Inc("probe.fault_in_nonce")
		case !raw && !p.File.Armor:
			c.Stats.Inc("probe.fault_in_payload")
		}
		if res.DecryptErr != nil {
			c.Stats.Inc("probe.src_error_from_Decrypt")
			if !res.ReaderNil {
				return fail("C13.src.reader_with_error", "Decrypt returned an error and a non-nil reader")
			}
		} else if res.Err != io.EOF {
			c.Stats.Inc("probe.src_error_from_Read")
		}
		if f.Mode == "sticky" {
			if res.Clean() {
				return fail("C13.src.swallowed", "sticky source fault %+v (delivery %s) but decryption reached a clean end of stream after %d bytes", *f, p.Delivery, len(res.Released))
			}
			if res.DecryptErr == nil && !res.Sticky {
				return fail("C13.src.notsticky", "failed reader does not keep failing: %s", res.StickyNote)
			}
		} else {
			if res.Clean() {
				if !bytes.Equal(res.Released, P) {
					return fail("C13.src.short_clean", "recovering source fault %+v: clean end of stream with %d of %d plaintext bytes", *f, len(res.Released), len(P))
				}
				c.Stats.Inc("probe.once_fault_swallowed_data_complete")
				// where, relative to the end of the header?
				switch {
				case raw:
					c.Stats.Inc("swallow.dearmor")
				case p.File.Armor:
					c.Stats.Inc("swallow.armored")
				case f.At < hdrLen:
					c.Stats.Inc("swallow.binary_before_header_end")
				case f.At < hdrLen+16:
					c.Stats.Inc("swallow.binary_in_nonce")
				default:
					c.Stats.Inc("swallow.binary_in_payload")
				}
				if f.Mode == "once-eof" {
					c.Stats.Inc("swallow.mode_once_eof")
				}
				// The tolerated case is narrow: the error came with the bytes that completed a binary header
				// (format.Parse then drops its private bufio and the error with it; nothing is read wrongly).
				// A source error that arrived BEFORE the header was complete, or anywhere in armored input,
				// cannot be dropped without the parser asking the failed source again.
				// ... or with the bytes that exactly completed the nonce or a full-size chunk (io.ReadFull drops an
				// error that comes with the bytes filling its buffer). A short final chunk never fills the buffer.
				end := f.At + src.FiredK
				explained := !raw && !p.File.Armor && f.At < hdrLen && end >= hdrLen
				if !raw && !p.File.Armor && end == hdrLen+16 && src.FiredK > 0 {
					explained = true
				}
				if !raw && !p.File.Armor && end > hdrLen+16 && (end-hdrLen-16)%65552 == 0 && src.FiredK > 0 {
					explained = true
				}
				if !explained {
					return fail("C13.src.once_swallowed", "the source failed once at offset %d (delivering %d bytes with the error; header ends at %d, armored=%v) and went on; decryption reported a clean end of stream and never mentioned the failure, although the bytes that came with the error completed neither the header nor the nonce nor a full-size chunk, so the failed source had to be read again", f.At, src.FiredK, hdrLen, raw || p.File.Armor)
				}
				c.Stats.Inc(fmt.Sprintf("swallow.k_%d_bufio_%d_deliv_%s", min(f.K, 2), p.Delivery.Bufio, p.Delivery.Mode))
			} else if res.DecryptErr == nil && !res.Sticky {
				return fail("C13.src.notsticky", "failed reader does not keep failing: %s", res.StickyNote)
			}
		}
	}
	// after the failed attempts: the same identity objects read the same file from a healthy source
	src := seam.NewSource(img, seam.Delivery{Mode: "whole"}, nil, nil)
	res := &lib.DecResult{}
	if raw {
		lib.Drain(armor.NewReader(src.Reader()), lib.ReadSched{Mode: "all"}, res, nil)
	} else {
		res = lib.Decrypt(src.Reader(), p.File.Armor, ids, lib.ReadSched{Mode: "all"}, nil)
	}
	c.Stats.Inc("probe.healthy_decryption_after_failed_ones")
	if !res.Clean() || !bytes.Equal(res.Released, P) {
		return core.Fail("C13.src.poisoned_next", "after decryptions that hit source faults, reading the same file from a healthy source with the same identity objects gives %d of %d bytes, %s", len(res.Released), len(P), res.ErrText())
	}
	return nil
}
