package engines

import (
	"bytes"
	"crypto/ed25519"
	"crypto/rsa"
	"errors"
	"fmt"
	"io"
	"time"

	"filippo.io/age"
	"filippo.io/age/agessh"
	"golang.org/x/crypto/ssh"

	"verif/sim/core"
	"verif/sim/lib"
	"verif/sim/ref"
	"verif/sim/seam"
	"verif/sim/world"
)

// C19 — encrypted SSH identity prompts only on a match and keeps no history.

// StanzaTo names the addressee of one stanza of a reference-written file.
//
//	"A" declared key, "B" the other fixture key of the same type, "e<k>"/"r<k>"/"x<k>" world keys.
type C19Call struct {
	Stanzas []string `json:"stanzas"`
	Answer  string   `json:"answer"` // what the passphrase callback does if asked: "right" | "wrong" | "empty" | "odd" (a wrong one the parser does not call a password error) | "error" | "error-with-value"
	FSeed   uint64   `json:"fseed"`
}

type C19Plan struct {
	Type      string    `json:"type"`  // "ed" | "rsa"
	Holds     string    `json:"holds"` // "A" (matched) | "B" (PEM holds another key of the same type) | "X" (PEM holds a key of the OTHER type)
	Rounds16  bool      `json:"rounds16,omitempty"`
	Collide   bool      `json:"collide,omitempty"`    // ed only: A and B are two different keys whose 4-byte stanza tags are equal (found by a birthday search, committed as fixtures): what tells them apart is the public key, never the tag
	SharedBuf bool      `json:"shared_buf,omitempty"` // the passphrase callback hands out the same buffer every time (an application that keeps the passphrase it was given once)
	Twin      bool      `json:"twin,omitempty"`       // before the history, ANOTHER identity value built from the same key file bytes (declaring the key the file really holds) unlocks and validates its key once
	Calls     []C19Call `json:"calls"`
}

type C19 struct{}

func (C19) ID() string { return "C19" }
func (C19) Title() string {
	return "call histories on one EncryptedSSHIdentity vs a two-state reference model; passphrase callback seam"
}
func (C19) NewPlan() interface{} { return &C19Plan{} }
func (C19) Runs(tier string) int {
	if tier == "thorough" {
		return 600000
	}
	return 30000
}

func (C19) Meta() core.Meta {
	return core.Meta{
		Level:       "exploration",
		Rule:        "a case = history of 2..6 Decrypt calls on ONE agessh.EncryptedSSHIdentity value (in a quarter of the cases after ANOTHER identity value over the same key file bytes has unlocked and validated its key: nothing of that may carry over) (ed25519 in OpenSSH format or RSA in legacy PEM; PEM holding the declared key A, another key B of the same type, or a key of the other type) over reference-written files whose stanza lists address A, B and unrelated keys of the same and of other types in any order, optionally with one crafted stanza (other SSH type carrying A's tag, A's type and tag with a body that does not open, stanzas without arguments); the passphrase callback answers right/wrong/error per plan and counts invocations. Every call's result class (plaintext / no-match / fatal error), plaintext and prompt count must equal the model {validated: bool}. Non-trivial = history contains a prompt; distinct = distinct (type, holds, history skeleton).",
		Assumptions: []string{"fixture keys generated once with ssh-keygen -a 1 (cheap KDF) and committed (the pair with equal tags by a birthday search over about 57 000 derived ed25519 keys); stanzas of the identity's type always carry a tag argument"},
		Real:        []string{"agessh.EncryptedSSHIdentity", "agessh Ed25519/RSA identities", "x/crypto/ssh key parsing", "filippo.io/age Decrypt"},
		Stub:        []string{"passphrase callback", "files (reference writer)", "source"},
		FaultKinds:  []string{"fault.passphrase_wrong", "fault.passphrase_error", "fault.mismatched_private_key"},
		Probes:      []string{"probe.prompted", "probe.no_prompt_no_match", "probe.validated_then_reused", "probe.after_mismatch_file_to_B", "probe.after_mismatch_same_file", "probe.after_wrong_then_right", "probe.match_not_first_stanza", "probe.same_type_other_tag", "probe.crafted_other_type_same_tag", "probe.crafted_same_tag_bad_body", "probe.crafted_other_tag_bad_args", "probe.key_file_of_other_type", "probe.twin_identity_validated_first", "probe.colliding_tags", "probe.passphrase_buffer_shared", "probe.compared_with_fresh_identity"},
	}
}

func (C19) Generate(r *core.RNG, tier string, idx uint64) interface{} {
	p := &C19Plan{Type: []string{"ed", "rsa"}[r.Intn(2)], Holds: "A"}
	if r.Chance(2, 5) {
		p.Holds = "B"
		if r.Chance(1, 3) {
			p.Holds = "X"
		}
	}
	if tier == "thorough" && p.Type == "ed" && p.Holds == "A" && r.Chance(1, 50) {
		p.Rounds16 = true
	}
	p.Twin = r.Chance(1, 4)
	p.SharedBuf = r.Chance(1, 3)
	if p.Type == "ed" && p.Holds != "X" && !p.Rounds16 && r.Chance(1, 6) {
		p.Collide = true
		p.Twin = false
	}
	n := r.Range(2, 6)
	same := "e"
	if p.Type == "rsa" {
		same = "r"
	}
	for i := 0; i < n; i++ {
		cl := C19Call{FSeed: r.U64() % 100000}
		switch r.Intn(10) {
		case 0, 1:
			cl.Answer = []string{"wrong", "wrong", "empty", "odd"}[r.Intn(4)]
		case 2:
			cl.Answer = []string{"error", "error-with-value"}[r.Intn(2)]
		default:
			cl.Answer = "right"
		}
		ns := r.Range(1, 4)
		main := []string{"A", "A", "A", "B", "other"}[r.Intn(5)]
		pos := r.Intn(ns)
		for j := 0; j < ns; j++ {
			if j == pos && main != "other" {
				cl.Stanzas = append(cl.Stanzas, main)
				continue
			}
			switch r.Intn(4) {
			case 0:
				cl.Stanzas = append(cl.Stanzas, fmt.Sprintf("%s%d", same, r.Intn(3)))
			case 1:
				cl.Stanzas = append(cl.Stanzas, fmt.Sprintf("x%d", r.Intn(4)))
			case 2:
				o := "r"
				if same == "r" {
					o = "e"
				}
				cl.Stanzas = append(cl.Stanzas, fmt.Sprintf("%s%d", o, r.Intn(3)))
			default:
				cl.Stanzas = append(cl.Stanzas, "B")
			}
		}
		if r.Chance(1, 4) {
			// a crafted stanza (the header MAC is only checked after an identity produced a file key)
			crafted := []string{"A~other", "A~other", "A~bad", "my-noargs", "other-noargs", "B~badargs", "B~badargs"}[r.Intn(7)]
			if p.Collide && crafted == "B~badargs" {
				crafted = "A~bad" // (B's tag IS A's tag there)
			}
			at := r.Intn(len(cl.Stanzas) + 1)
			cl.Stanzas = append(cl.Stanzas[:at:at], append([]string{crafted}, cl.Stanzas[at:]...)...)
		}
		p.Calls = append(p.Calls, cl)
	}
	return p
}

func (C19) Shrinks(plan interface{}) []interface{} {
	p := plan.(*C19Plan)
	var out []interface{}
	if len(p.Calls) > 1 {
		for i := range p.Calls {
			q := *p
			q.Calls = append(append([]C19Call(nil), p.Calls[:i]...), p.Calls[i+1:]...)
			out = append(out, &q)
		}
	}
	if p.Twin {
		q := *p
		q.Twin = false
		out = append(out, &q)
	}
	if p.SharedBuf {
		q := *p
		q.SharedBuf = false
		out = append(out, &q)
	}
	for i, cl := range p.Calls {
		if len(cl.Stanzas) > 1 {
			for j := range cl.Stanzas {
				q := *p
				q.Calls = append([]C19Call(nil), p.Calls...)
				q.Calls[i].Stanzas = append(append([]string(nil), cl.Stanzas[:j]...), cl.Stanzas[j+1:]...)
				out = append(out, &q)
			}
		}
	}
	return out
}

type c19Keys struct {
	pubA         ssh.PublicKey
	edA, edB     ed25519.PrivateKey
	rsaA, rsaB   *rsa.PrivateKey
	pemA, pemB   []byte
	passA, passB string
}

func c19Load(typ string, rounds16 bool, collide ...bool) *c19Keys {
	k := &c19Keys{}
	name := "ed"
	if typ == "rsa" {
		name = "rsa"
	}
	if len(collide) > 0 && collide[0] && typ == "ed" {
		name = "edc"
	}
	pub, _, _, _, err := ssh.ParseAuthorizedKey(world.Fixture("c19_" + name + "A.pub"))
	if err != nil {
		panic(err)
	}
	k.pubA = pub
	rawA, err := ssh.ParseRawPrivateKey(world.Fixture("c19_" + name + "A.plain"))
	if err != nil {
		panic(err)
	}
	rawB, err := ssh.ParseRawPrivateKey(world.Fixture("c19_" + name + "B.plain"))
	if err != nil {
		panic(err)
	}
	if typ == "ed" {
		k.edA = *rawA.(*ed25519.PrivateKey)
		k.edB = *rawB.(*ed25519.PrivateKey)
	} else {
		k.rsaA = rawA.(*rsa.PrivateKey)
		k.rsaB = rawB.(*rsa.PrivateKey)
	}
	k.pemA = world.Fixture("c19_" + name + "A.enc")
	if rounds16 {
		k.pemA = world.Fixture("c19_edA.enc16")
	}
	k.pemB = world.Fixture("c19_" + name + "B.enc")
	k.passA = "pass-" + name + "A"
	k.passB = "pass-" + name + "B"
	return k
}

func (e C19) Execute(plan interface{}, c *core.Ctx) *core.Verdict {
	p := plan.(*C19Plan)
	ks := c19Load(p.Type, p.Rounds16, p.Collide)
	if p.Collide {
		c.Stats.Inc("probe.colliding_tags")
	}
	pem, pass := ks.pemA, ks.passA
	if p.Holds == "B" {
		pem, pass = ks.pemB, ks.passB
	}
	if p.Holds == "X" {
		// the key file holds a key of the other SSH key type
		other := "rsa"
		if p.Type == "rsa" {
			other = "ed"
		}
		pem, pass = world.Fixture("c19_"+other+"B.enc"), "pass-"+other+"B"
	}
	prompts := 0
	answer := "right"
	rightBuf, wrongBuf := []byte(pass), []byte("not the passphrase")
	// a wrong passphrase that the key-file parser does not report as "incorrect password": the empty one for the
	// OpenSSH format (bcrypt refuses it), and for the legacy PEM fixtures one that happens to decrypt to valid
	// padding and to bytes that are not DER (found by a search over "wrong-N", about one in 10^4)
	heldRSA := map[string]string{"rsa/A": "wrong-13656", "rsa/B": "wrong-30394", "ed/X": "wrong-30394"}[p.Type+"/"+p.Holds]
	oddBuf := []byte(heldRSA)
	if p.SharedBuf {
		c.Stats.Inc("probe.passphrase_buffer_shared")
	}
	id, err := agessh.NewEncryptedSSHIdentity(ks.pubA, pem, func() ([]byte, error) {
		prompts++
		switch answer {
		case "right":
			if p.SharedBuf {
				return rightBuf, nil
			}
			return []byte(pass), nil
		case "wrong":
			if p.SharedBuf {
				return wrongBuf, nil
			}
			return []byte("not the passphrase"), nil
		case "empty":
			return []byte{}, nil
		case "odd":
			if p.SharedBuf {
				return oddBuf, nil
			}
			return []byte(heldRSA), nil
		case "error-with-value":
			// the callback fails but still hands back what was typed: it must count as a failure
			return []byte(pass), errors.New("sim: prompt interrupted")
		}
		return nil, errors.New("sim: user aborted the prompt")
	})
	if err != nil {
		return core.Fail("harness", "NewEncryptedSSHIdentity: %v", err)
	}
	if p.Twin {
		// a second identity value over the same key file bytes: what it learns must stay its own
		heldType, heldName := p.Type, "A"
		if p.Holds == "B" {
			heldName = "B"
		}
		if p.Holds == "X" {
			heldName = "B"
			heldType = "rsa"
			if p.Type == "rsa" {
				heldType = "ed"
			}
		}
		hk := c19Load(heldType, false)
		pubHeld, _, _, _, err := ssh.ParseAuthorizedKey(world.Fixture("c19_" + heldType + heldName + ".pub"))
		if err != nil {
			return core.Fail("harness", "twin pub: %v", err)
		}
		tp := 0
		twin, err := agessh.NewEncryptedSSHIdentity(pubHeld, pem, func() ([]byte, error) {
			tp++
			if p.SharedBuf {
				return rightBuf, nil // both identity values are fed from the application's one buffer
			}
			return []byte(pass), nil
		})
		if err != nil {
			return core.Fail("harness", "twin: %v", err)
		}
		trng := core.NewRNG(0x7717)
		tf := &ref.File{FileKey: trng.Bytes(16), Nonce: trng.Bytes(16), Plain: []byte("twin")}
		if heldType == "ed" {
			k := hk.edA
			if heldName == "B" {
				k = hk.edB
			}
			tf.Stanzas = []*ref.Stanza{ref.WrapSSHEd25519(tf.FileKey, trng.Bytes(32), k.Public().(ed25519.PublicKey))}
		} else {
			k := hk.rsaA
			if heldName == "B" {
				k = hk.rsaB
			}
			st, _ := ref.WrapSSHRSA(tf.FileKey, bytes.NewReader(trng.Bytes(2048)), &k.PublicKey)
			tf.Stanzas = []*ref.Stanza{st}
		}
		tr, err := age.Decrypt(bytes.NewReader(tf.Encode()), twin)
		if err != nil || tp != 1 {
			return core.Fail("harness", "twin identity could not open its own file: %v (prompts %d)", err, tp)
		}
		io.ReadAll(tr)
		c.Stats.Inc("probe.twin_identity_validated_first")
	}
	myType := "ssh-ed25519"
	if p.Type == "rsa" {
		myType = "ssh-rsa"
	}
	validated := false
	sawMismatch, sawWrong := false, false
	var firstMismatchStanzas string
	skeleton := p.Type + "/" + p.Holds
	if p.Collide {
		skeleton += "/collide"
	}
	if p.SharedBuf {
		skeleton += "/sharedbuf"
	}
	if p.Twin {
		skeleton += "/twin"
	}
	hasPrompt := false
	for ci, cl := range p.Calls {
		rng := core.NewRNG(cl.FSeed)
		f := &ref.File{FileKey: rng.Bytes(16), Nonce: rng.Bytes(16), Plain: core.Pattern(cl.FSeed, 40)}
		otherType := "ssh-rsa"
		if p.Type == "rsa" {
			otherType = "ssh-ed25519"
		}
		var tagA string
		if p.Type == "ed" {
			tagA = ref.SSHTag(ref.WireEd25519(ks.edA.Public().(ed25519.PublicKey)))
		} else {
			tagA = ref.SSHTag(ref.WireRSA(&ks.rsaA.PublicKey))
		}
		// per stanza, what the identity's own rules make of it
		type view struct {
			mine    bool // stanza of the identity's key type
			noargs  bool
			tagA    bool // carries the declared key's tag
			opens   bool // honestly wrapped to A
			badargs bool // wrong number of arguments for the type (and another key's tag)
		}
		var views []view
		for si, who := range cl.Stanzas {
			var st *ref.Stanza
			vw := view{}
			mk := func(t string, k int) *ref.Stanza {
				switch t {
				case "e":
					return ref.WrapSSHEd25519(f.FileKey, rng.Bytes(32), world.EdKey(k).Public().(ed25519.PublicKey))
				case "r":
					s, _ := ref.WrapSSHRSA(f.FileKey, bytes.NewReader(rng.Bytes(2048)), &world.RSAKey(k).PublicKey)
					return s
				}
				return ref.WrapX25519(f.FileKey, rng.Bytes(32), ref.X25519Public(world.X25519Secret(k)))
			}
			switch who {
			case "A", "B":
				if p.Type == "ed" {
					key := ks.edA
					if who == "B" {
						key = ks.edB
					}
					st = ref.WrapSSHEd25519(f.FileKey, rng.Bytes(32), key.Public().(ed25519.PublicKey))
				} else {
					key := ks.rsaA
					if who == "B" {
						key = ks.rsaB
					}
					st, _ = ref.WrapSSHRSA(f.FileKey, bytes.NewReader(rng.Bytes(2048)), &key.PublicKey)
				}
				vw.mine = true
				if who == "B" && len(st.Args) > 0 && st.Args[0] == tagA {
					vw.tagA = true // a different key with the same tag: looks addressed to A, does not open with A
				}
				if who == "A" {
					vw.tagA, vw.opens = true, true
					if si > 0 {
						c.Stats.Inc("probe.match_not_first_stanza")
					}
				}
			case "A~other":
				// a stanza of the OTHER ssh type that carries the declared key's tag
				st = &ref.Stanza{Type: otherType, Args: []string{tagA}, Body: rng.Bytes(32)}
				if otherType == "ssh-ed25519" {
					st.Args = append(st.Args, ref.B64(ref.X25519Public(rng.Bytes(32))))
				}
				c.Stats.Inc("probe.crafted_other_type_same_tag")
			case "A~bad":
				// the identity's type and tag, but a body that does not open
				st = &ref.Stanza{Type: myType, Args: []string{tagA}, Body: rng.Bytes(32)}
				if p.Type == "ed" {
					st.Args = append(st.Args, ref.B64(ref.X25519Public(rng.Bytes(32))))
				} else {
					st.Body = rng.Bytes(256)
					st.Body[0] = 0
				}
				vw.mine, vw.tagA = true, true
				c.Stats.Inc("probe.crafted_same_tag_bad_body")
			case "B~badargs":
				// the identity's type, ANOTHER key's tag, and a wrong number of arguments: the match scan skips it,
				// the plain identity rejects the whole list when it meets it before a stanza it can open
				tagB := ""
				if p.Type == "ed" {
					tagB = ref.SSHTag(ref.WireEd25519(ks.edB.Public().(ed25519.PublicKey)))
					st = &ref.Stanza{Type: myType, Args: []string{tagB}, Body: rng.Bytes(32)}
					if rng.Bool() {
						st.Args = []string{tagB, ref.B64(rng.Bytes(32)), "extra"}
					}
				} else {
					tagB = ref.SSHTag(ref.WireRSA(&ks.rsaB.PublicKey))
					st = &ref.Stanza{Type: myType, Args: []string{tagB, "extra"}, Body: rng.Bytes(256)}
				}
				vw.mine, vw.badargs = true, true
				c.Stats.Inc("probe.crafted_other_tag_bad_args")
			case "my-noargs":
				st = &ref.Stanza{Type: myType, Body: rng.Bytes(32)}
				vw.mine, vw.noargs = true, true
			case "other-noargs":
				st = &ref.Stanza{Type: otherType, Body: rng.Bytes(32)}
			default:
				var k int
				fmt.Sscanf(who[1:], "%d", &k)
				st = mk(who[:1], k)
				if st.Type == myType {
					vw.mine = true
					c.Stats.Inc("probe.same_type_other_tag")
				}
			}
			f.Stanzas = append(f.Stanzas, st)
			views = append(views, vw)
		}
		img := f.Encode()
		// model of the plain (decrypted) identity over the stanza list
		plain := func() string {
			for _, vw := range views {
				if !vw.mine {
					continue
				}
				if vw.noargs || vw.badargs {
					return "fatal" // the plain identities check the argument count before the tag
				}
				if !vw.tagA {
					continue
				}
				if vw.opens {
					return "ok"
				}
				return "fatal"
			}
			return "nomatch"
		}
		// model of the match scan of the encrypted identity
		scan := func() string {
			for _, vw := range views {
				if !vw.mine {
					continue
				}
				if vw.noargs {
					return "fatal"
				}
				if vw.tagA {
					return "match"
				}
			}
			return "nomatch"
		}
		toA := false
		for _, vw := range views {
			if vw.opens {
				toA = true
			}
		}
		match := scan() == "match"
		wantPrompts := 0
		var wantClass string
		switch {
		// what a file gives is a function of the file (and of the answer when a prompt is due), not of the
		// identity's past: the scan decides first, whether or not a key is already remembered
		case scan() == "fatal":
			wantClass = "fatal"
		case !match:
			wantClass = "nomatch"
		case validated:
			wantClass = plain()
		default:
			wantPrompts = 1
			switch {
			case cl.Answer != "right":
				wantClass = "fatal"
			case p.Holds != "A":
				wantClass = "fatal"
			default:
				validated = true
				wantClass = plain()
			}
		}
		// probes for history shapes (before running the call)
		if sawMismatch && !match && contains(cl.Stanzas, "B") {
			c.Stats.Inc("probe.after_mismatch_file_to_B")
		}
		if sawMismatch && fmt.Sprint(cl.Stanzas) == firstMismatchStanzas {
			c.Stats.Inc("probe.after_mismatch_same_file")
		}
		if sawWrong && wantPrompts == 1 && cl.Answer == "right" {
			c.Stats.Inc("probe.after_wrong_then_right")
		}
		// run
		answer = cl.Answer
		before := prompts
		// (a call takes milliseconds, a second with the 16-round key file: one that has not returned after 30 s waits
		// for something an earlier call left behind)
		var res *lib.DecResult
		done := make(chan *lib.DecResult, 1)
		go func() {
			done <- lib.Decrypt(seam.NewSource(img, seam.Delivery{Mode: "whole"}, nil, nil).Reader(), false, []age.Identity{id}, lib.ReadSched{Mode: "all"}, nil)
		}()
		select {
		case res = <-done:
		case <-time.After(30 * time.Second):
			return core.Fail("C19.hang", "call %d of history (identity %s declared A, key file holds %s, stanzas %v, answer %s) has not returned after 30 s; earlier calls: %s", ci, p.Type, p.Holds, cl.Stanzas, cl.Answer, skeleton)
		}
		got := prompts - before
		// as long as no key has been validated, what came before leaves no trace: a NEW identity value over the same key
		// file, asked the same way, must end in the very same error (or the same success), word for word
		if ci > 0 && !(validated && wantPrompts == 0) {
			fp := 0
			fresh, ferr := agessh.NewEncryptedSSHIdentity(ks.pubA, pem, func() ([]byte, error) {
				fp++
				switch cl.Answer {
				case "right":
					return []byte(pass), nil
				case "wrong":
					return []byte("not the passphrase"), nil
				case "empty":
					return []byte{}, nil
				case "odd":
					return []byte(heldRSA), nil
				case "error-with-value":
					return []byte(pass), errors.New("sim: prompt interrupted")
				}
				return nil, errors.New("sim: user aborted the prompt")
			})
			if ferr != nil {
				return core.Fail("harness", "fresh identity: %v", ferr)
			}
			fres := lib.Decrypt(seam.NewSource(img, seam.Delivery{Mode: "whole"}, nil, nil).Reader(), false, []age.Identity{fresh}, lib.ReadSched{Mode: "all"}, nil)
			c.Stats.Inc("probe.compared_with_fresh_identity")
			if fres.ErrText() != res.ErrText() || fp != got {
				return core.Fail("C19.trace_of_earlier_calls", "call %d of history (identity %s declared A, key file holds %s, stanzas %v, answer %s, no key validated so far): %q after %d prompt(s); a new identity value over the same key file, asked the same way, gives %q after %d prompt(s)", ci, p.Type, p.Holds, cl.Stanzas, cl.Answer, res.ErrText(), got, fres.ErrText(), fp)
			}
		}
		var class string
		var nm *age.NoIdentityMatchError
		switch {
		case res.Clean():
			class = "ok"
		case res.DecryptErr != nil && errors.As(res.DecryptErr, &nm):
			class = "nomatch"
		default:
			class = "fatal"
		}
		c.Log.Add("call %d stanzas=%v answer=%s -> class=%s prompts=%d (model: %s, %d) %s", ci, cl.Stanzas, cl.Answer, class, got, wantClass, wantPrompts, res.ErrText())
		skeleton += fmt.Sprintf("|%v:%s", cl.Stanzas, cl.Answer)
		if wantPrompts == 1 {
			hasPrompt = true
			c.Stats.Inc("probe.prompted")
			switch {
			case cl.Answer == "wrong" || cl.Answer == "empty" || cl.Answer == "odd":
				c.Stats.Inc("fault.passphrase_wrong")
				sawWrong = true
			case cl.Answer == "error" || cl.Answer == "error-with-value":
				c.Stats.Inc("fault.passphrase_error")
			case p.Holds != "A":
				c.Stats.Inc("fault.mismatched_private_key")
				if p.Holds == "X" {
					c.Stats.Inc("probe.key_file_of_other_type")
				}
				if !sawMismatch {
					firstMismatchStanzas = fmt.Sprint(cl.Stanzas)
				}
				sawMismatch = true
			}
		} else if !validated || !toA {
			c.Stats.Inc("probe.no_prompt_no_match")
		}
		if validated && wantPrompts == 0 && toA {
			c.Stats.Inc("probe.validated_then_reused")
		}
		if got != wantPrompts {
			return core.Fail("C19.prompts", "call %d of history (identity %s declared A, key file holds %s): %d passphrase prompt(s), the model says %d (stanzas %v, validated before: %v)", ci, p.Type, p.Holds, got, wantPrompts, cl.Stanzas, wantClass == "ok" && wantPrompts == 0)
		}
		if class != wantClass {
			return core.Fail("C19.outcome", "call %d of history (identity %s declared A, key file holds %s, stanzas %v, answer %s): outcome %s (%s), a fresh identity would give %s: the outcome depends on earlier calls", ci, p.Type, p.Holds, cl.Stanzas, cl.Answer, class, res.ErrText(), wantClass)
		}
		if class == "ok" && !bytes.Equal(res.Released, f.Plain) {
			return core.Fail("C19.plaintext", "call %d: wrong plaintext", ci)
		}
	}
	c.Stats.Eval(skeleton, hasPrompt)
	return nil
}

func contains(xs []string, s string) bool {
	for _, x := range xs {
		if x == s {
			return true
		}
	}
	return false
}
